"""C14 - Placement obeys the starting strategy and the distribution rule.
C04 - Start requests only go to eligible instances with spare load (the strategy-level clauses live here because
the same functions carry both properties; the commander-level clauses are in c04.py).

Abstraction of the sums (the engine does not unfold sum() over symbolic collections):
  L(i)  = SupvisorsInstanceStatus.ghost_load        what get_load() returns ("sum of expected_load of the processes
                                                    running on instance i"), see assumed contract GetLoad
  NL(m) = Context.ghost_node_load[m]                what get_nodes_load()[m] returns ("sum over the set of the identifiers
                                                    of machine m of L(i)"), see assumed contract GetNodesLoad
  NR(m) = result of get_node_load_request_map       per machine SUM of the pending requests of all the identifiers of the
                                                    machine: setsum over the keys of the request map, PROVED by a loop
                                                    invariant (the engine knows the recursive definition of a finite sum)
Everything else (validity predicate, candidate filtering, choice of the optimum, dispatch) is proved on the real code.
"""
from pyvc.spec import *

GROUP = 'strategy'   # contracts of one group use each other's contracts at call sites (pyvc/hooks.py contract_for_call)


# --------------------------------------------------------------------------------------------------------------------
# shared specification functions
def machine_of(supvisors, i):
    """machine id of instance i as the strategy reads it"""
    return supvisors.context.instances[i].supvisors_id.local_view.machine_id


def get0(m, k):
    """m.get(k, 0)"""
    return m[k] if k in m else 0


def node_loading(supvisors, i, load_details):
    """'the expected_loading of everything running on that node plus the starts already requested there': the two node
    maps are summed, so the order in which the caller passes them does not matter"""
    return get0(load_details[1], machine_of(supvisors, i)) + get0(load_details[2], machine_of(supvisors, i))


def instance_loading(supvisors, i, load_details):
    """instance load including the starts already requested on it"""
    return supvisors.context.instances[i].ghost_load + get0(load_details[0], i)


def valid(supvisors, i, expected_load, load_details):
    """C04: node load 'stays at or below 100 once the program's expected_loading is added'"""
    return node_loading(supvisors, i, load_details) + expected_load <= 100


def identified(supvisors, i):
    """instance i is known to the context and has been identified (network view received during the handshake)"""
    return (i in supvisors.context.instances
            and supvisors.context.instances[i].supvisors_id.local_view is not None)


# --------------------------------------------------------------------------------------------------------------------
@contract('instancestatus:SupvisorsInstanceStatus.get_load', props=['C14', 'C04'])
class GetLoad:
    """ASSUMED abstraction: get_load() is sum(expected_load of the running processes); the sum is not unfolded, its
    value is the ghost quantity L(i) = self.ghost_load; reading it changes nothing"""
    assumed = True
    raises = ()

    def modifies(self):
        return []

    def post_value(self, result):
        return result == self.ghost_load


@contract('strategy:AbstractStartingStrategy.is_loading_valid', props=['C14', 'C04'])
class IsLoadingValid:
    """C04: 'whose node load - the expected_loading of everything running on that node plus the starts already requested
    there - stays at or below 100 once the program's expected_loading is added'"""
    raises = ()

    def modifies(self, identifier):
        return []

    def pre_identified(self, identifier):
        return identified(self.supvisors, identifier)

    def post_valid_iff(self, identifier, expected_load, load_details, result):
        return result[0] == valid(self.supvisors, identifier, expected_load, load_details)

    def post_node_loading(self, identifier, load_details, result):
        return result[1] == node_loading(self.supvisors, identifier, load_details)

    def post_instance_loading(self, identifier, load_details, result):
        return result[2] == instance_loading(self.supvisors, identifier, load_details)


def all_identified(supvisors, identifiers):
    return forall(identifiers, lambda i: identified(supvisors, i))


@contract('strategy:AbstractStartingStrategy.get_loading_and_validity', props=['C14', 'C04'])
class GetLoadingAndValidity:
    """DESIGN C14.1: 'map with domain = set of candidates, insertion order = first occurrence, value is_loading_valid(i)'"""
    raises = ()

    def modifies(self):
        return []

    def pre_identified(self, identifiers):
        return all_identified(self.supvisors, identifiers)

    def post_domain(self, identifiers, result):
        return forall(str, lambda i: (i in result) == (i in identifiers))

    def post_validity(self, identifiers, expected_load, load_details, result):
        return forall(result, lambda i: result[i][0] == valid(self.supvisors, i, expected_load, load_details))

    def post_node_loading(self, identifiers, expected_load, load_details, result):
        return forall(result, lambda i: result[i][1] == node_loading(self.supvisors, i, load_details))

    def post_instance_loading(self, identifiers, expected_load, load_details, result):
        return forall(result, lambda i: result[i][2] == instance_loading(self.supvisors, i, load_details))

    def post_order_of_first_occurrence(self, identifiers, result):
        """key a precedes key b in the map => a occurs in the list before any occurrence of b"""
        return forall(int, int, lambda a, b: implies(
            0 <= a and a < b and b < order_len(result),
            exists(int, lambda p: 0 <= p and p < len(identifiers) and identifiers[p] == key_at(result, a)
                   and forall(int, lambda q: implies(0 <= q and q <= p, identifiers[q] != key_at(result, b))))))

    def post_fresh(self, result):
        return was_fresh(result)


def by_instance(supvisors, i, load_details):
    """C14: 'the lowest / highest instance load (node load breaking ties)'"""
    return (instance_loading(supvisors, i, load_details), node_loading(supvisors, i, load_details))


def by_node(supvisors, i, load_details):
    """C14: 'the least / most loaded node (instance load breaking ties)'"""
    return (node_loading(supvisors, i, load_details), instance_loading(supvisors, i, load_details))


def none_iff_no_valid(supvisors, identifiers, expected_load, load_details, result):
    """C04: 'If no instance qualifies nothing is sent': None exactly when no candidate is valid"""
    return (result is None) == (not exists(identifiers, lambda i: valid(supvisors, i, expected_load, load_details)))


def eligible(supvisors, identifiers, expected_load, load_details, result):
    """C04 clause 2: result is None or a candidate whose node keeps spare load"""
    return result is None or (result in identifiers and valid(supvisors, result, expected_load, load_details))


@contract('strategy:ConfigStrategy.get_supvisors_instance', props=['C14', 'C04'])
class ConfigChoice:
    """C14: 'CONFIG takes the first in declared order' (first valid candidate of the list)"""
    raises = ()

    def modifies(self):
        return []

    def pre_identified(self, identifiers):
        return all_identified(self.supvisors, identifiers)

    def post_eligible(self, identifiers, expected_load, load_details, result):
        return eligible(self.supvisors, identifiers, expected_load, load_details, result)

    def post_none_iff(self, identifiers, expected_load, load_details, result):
        return none_iff_no_valid(self.supvisors, identifiers, expected_load, load_details, result)

    def post_first_in_list_order(self, identifiers, expected_load, load_details, result):
        """every valid candidate of the list is preceded by (or is) an occurrence of the result; together with
        post_eligible (the result is itself a valid candidate) this says that the result is the first valid candidate:
        take the first valid position q0, some occurrence p <= q0 of the result is valid, hence p = q0"""
        return result is None or forall(int, lambda q: implies(
            0 <= q and q < len(identifiers) and valid(self.supvisors, identifiers[q], expected_load, load_details),
            exists(int, lambda p: 0 <= p and p <= q and identifiers[p] == result)))


@contract('strategy:LessLoadedStrategy.get_supvisors_instance', props=['C14', 'C04'])
class LessLoadedChoice:
    """C14: 'LESS_LOADED ... the one with the lowest instance load (node load breaking ties) ... loads include starts
    already requested'"""
    raises = ()

    def modifies(self):
        return []

    def pre_identified(self, identifiers):
        return all_identified(self.supvisors, identifiers)

    def post_eligible(self, identifiers, expected_load, load_details, result):
        return eligible(self.supvisors, identifiers, expected_load, load_details, result)

    def post_none_iff(self, identifiers, expected_load, load_details, result):
        return none_iff_no_valid(self.supvisors, identifiers, expected_load, load_details, result)

    def post_minimal(self, identifiers, expected_load, load_details, result):
        return result is None or forall(identifiers, lambda j: implies(
            valid(self.supvisors, j, expected_load, load_details),
            by_instance(self.supvisors, result, load_details) <= by_instance(self.supvisors, j, load_details)))


@contract('strategy:MostLoadedStrategy.get_supvisors_instance', props=['C14', 'C04'])
class MostLoadedChoice:
    """C14: 'MOST_LOADED the one with the ... highest instance load (node load breaking ties)'"""
    raises = ()

    def modifies(self):
        return []

    def pre_identified(self, identifiers):
        return all_identified(self.supvisors, identifiers)

    def post_eligible(self, identifiers, expected_load, load_details, result):
        return eligible(self.supvisors, identifiers, expected_load, load_details, result)

    def post_none_iff(self, identifiers, expected_load, load_details, result):
        return none_iff_no_valid(self.supvisors, identifiers, expected_load, load_details, result)

    def post_maximal(self, identifiers, expected_load, load_details, result):
        return result is None or forall(identifiers, lambda j: implies(
            valid(self.supvisors, j, expected_load, load_details),
            by_instance(self.supvisors, result, load_details) >= by_instance(self.supvisors, j, load_details)))


@contract('strategy:LessLoadedNodeStrategy.get_supvisors_instance', props=['C14', 'C04'])
class LessLoadedNodeChoice:
    """C14: 'LESS_LOADED_NODE ... the one on the least ... loaded node (instance load breaking ties)'"""
    raises = ()

    def modifies(self):
        return []

    def pre_identified(self, identifiers):
        return all_identified(self.supvisors, identifiers)

    def post_eligible(self, identifiers, expected_load, load_details, result):
        return eligible(self.supvisors, identifiers, expected_load, load_details, result)

    def post_none_iff(self, identifiers, expected_load, load_details, result):
        return none_iff_no_valid(self.supvisors, identifiers, expected_load, load_details, result)

    def post_minimal(self, identifiers, expected_load, load_details, result):
        return result is None or forall(identifiers, lambda j: implies(
            valid(self.supvisors, j, expected_load, load_details),
            by_node(self.supvisors, result, load_details) <= by_node(self.supvisors, j, load_details)))


@contract('strategy:MostLoadedNodeStrategy.get_supvisors_instance', props=['C14', 'C04'])
class MostLoadedNodeChoice:
    """C14: 'MOST_LOADED_NODE the one on the ... most loaded node (instance load breaking ties)'"""
    raises = ()

    def modifies(self):
        return []

    def pre_identified(self, identifiers):
        return all_identified(self.supvisors, identifiers)

    def post_eligible(self, identifiers, expected_load, load_details, result):
        return eligible(self.supvisors, identifiers, expected_load, load_details, result)

    def post_none_iff(self, identifiers, expected_load, load_details, result):
        return none_iff_no_valid(self.supvisors, identifiers, expected_load, load_details, result)

    def post_maximal(self, identifiers, expected_load, load_details, result):
        return result is None or forall(identifiers, lambda j: implies(
            valid(self.supvisors, j, expected_load, load_details),
            by_node(self.supvisors, result, load_details) >= by_node(self.supvisors, j, load_details)))


@contract('strategy:LocalStrategy.get_supvisors_instance', props=['C14', 'C04'])
class LocalChoice:
    """C14: 'LOCAL only the requesting instance': the local identifier iff it is a candidate and valid, else None"""
    raises = ()

    def modifies(self):
        return []

    def pre_identified(self, identifiers):
        return all_identified(self.supvisors, identifiers)

    def pre_local_known(self):
        return self.supvisors.mapper.local_identifier is not None

    def post_eligible(self, identifiers, expected_load, load_details, result):
        return eligible(self.supvisors, identifiers, expected_load, load_details, result)

    def post_local_iff(self, identifiers, expected_load, load_details, result):
        local = self.supvisors.mapper.local_identifier
        ok = local in identifiers and valid(self.supvisors, local, expected_load, load_details)
        return (result == local) if ok else (result is None)


# --------------------------------------------------------------------------------------------------------------------
# dispatch and the module-level entry points
def request_machine(mapper, i):
    """machine id of the instance i as get_node_load_request_map reads it"""
    return mapper._instances[i].local_view.machine_id


def requests_of(mapper, load_request_map, keys, m):
    """sum of the pending requests of the identifiers of `keys` that belong to machine m (setsum: the engine only knows
    the recursive definition of a finite sum - empty set 0, one more member adds its weight)"""
    return setsum(keys, lambda i: load_request_map[i] if request_machine(mapper, i) == m else 0)


def node_requests(mapper, load_request_map, m):
    """NR(m): 'the starts already requested there' = per machine, the SUM of the pending requests of ALL its instances
    (several instances of one node accumulate)"""
    return requests_of(mapper, load_request_map, load_request_map, m)


def mapper_knows(supvisors, i):
    """instance i has been identified: its machine is a key of mapper.nodes and the mapper and the context agree on it"""
    return (identified(supvisors, i) and i in supvisors.mapper._instances
            and supvisors.mapper._instances[i] is supvisors.context.instances[i].supvisors_id
            and machine_of(supvisors, i) in supvisors.mapper.nodes)


def nodes_wf(supvisors):
    """mapper invariant needed by get_nodes_load (DESIGN C04.4): every identifier filed under a machine is known to the
    context and nodes[m] is duplicate-free"""
    nodes = supvisors.mapper.nodes
    return (forall(nodes, lambda m: forall(nodes[m], lambda i: i in supvisors.context.instances))
            and forall(nodes, lambda m: forall(int, int, lambda a, b: implies(
                0 <= a and a < b and b < len(nodes[m]), nodes[m][a] != nodes[m][b]))))


@contract('context:Context.get_nodes_load', props=['C14', 'C04'])
class GetNodesLoad:
    """ASSUMED abstraction (DESIGN C04.4): per machine, the sum over the *set* of its identifiers of get_load(); the sum is
    not unfolded, its value is the ghost NL(m) = self.ghost_node_load[m].  The precondition is the mapper invariant under
    which the code (which sums over the *list* nodes[m]) agrees with that definition; it is proved at every call site
    and its preservation by SupvisorsMapper.identify is a separate obligation (contracts/c04.py)."""
    assumed = True
    raises = ()

    def modifies(self):
        return []

    def pre_nodes_wf(self):
        return nodes_wf(self.supvisors)

    def post_domain(self, result):
        return forall(str, lambda m: (m in result) == (m in self.supvisors.mapper.nodes))

    def post_values(self, result):
        return forall(result, lambda m: result[m] == self.ghost_node_load[m])

    def post_fresh(self, result):
        return was_fresh(result)


@contract('strategy:get_node_load_request_map', props=['C14', 'C04'])
class GetNodeLoadRequestMap:
    """C14: 'loads include starts already requested', C04: 'node load - ... plus the starts already requested there':
    the result maps every machine id of mapper.nodes to the SUM of the requests of ALL the identifiers of that machine
    (NR(m), see node_requests).  VERIFIED with a loop invariant over the set `seen` of the identifiers already handled:
    every entry is the sum over the seen identifiers of its machine (so `=` instead of `+=`, a wrong key or a dropped
    request is refuted).  The precondition (every requested identifier is identified and its machine is a key of
    mapper.nodes - otherwise the loop raises KeyError) is proved at every call site."""
    raises = ()
    returns = 'Dict[str, int]'

    def modifies():
        return []

    def pre_graph(mapper):
        """call sites pass supvisors.mapper, whose back pointer is that Supvisors object (graph_wf)"""
        return mapper.supvisors.mapper is mapper

    def pre_requested_known(mapper, load_request_map):
        return forall(load_request_map, lambda i: mapper_knows(mapper.supvisors, i))

    def post_domain(mapper, result):
        return forall(str, lambda m: (m in result) == (m in mapper.nodes))

    def post_values(mapper, load_request_map, result):
        return forall(result, lambda m: result[m] == node_requests(mapper, load_request_map, m))

    def post_fresh(result):
        return was_fresh(result)

    def loop0_inv(mapper, load_request_map, node_load_request_map, seen):
        return (was_fresh(node_load_request_map)
                and forall(str, lambda m: (m in node_load_request_map) == (m in mapper.nodes))
                and forall(node_load_request_map, lambda m: node_load_request_map[m]
                           == requests_of(mapper, load_request_map, seen, m)))

    def loop0_modifies(node_load_request_map):
        return [contents(node_load_request_map)]


@contract('strategy:create_strategy', props=['C14'])
class CreateStrategy:
    """DESIGN C14.3: total dispatch over the six members of StartingStrategies"""
    raises = ()
    types = {'supvisors': 'Supvisors'}

    def modifies():
        return []

    def post_total(result):
        return result is not None

    def post_class(strategy, result):
        return (implies(strategy == StartingStrategies.CONFIG, isinstance(result, ConfigStrategy))
                and implies(strategy == StartingStrategies.LESS_LOADED, isinstance(result, LessLoadedStrategy))
                and implies(strategy == StartingStrategies.MOST_LOADED, isinstance(result, MostLoadedStrategy))
                and implies(strategy == StartingStrategies.LOCAL, isinstance(result, LocalStrategy))
                and implies(strategy == StartingStrategies.LESS_LOADED_NODE, isinstance(result, LessLoadedNodeStrategy))
                and implies(strategy == StartingStrategies.MOST_LOADED_NODE, isinstance(result, MostLoadedNodeStrategy)))

    def post_bound(supvisors, result):
        return result.supvisors is supvisors and was_fresh(result)


# ---- the statement's view of one placement decision, over the abstract loads L, NL, NR
def is_running(supvisors, i):
    """C04: 'an instance that the requester sees RUNNING'"""
    return (i in supvisors.context.instances
            and supvisors.context.instances[i]._state == SupvisorsInstanceStates.RUNNING)


def node_load_abs(supvisors, lrm, i):
    """C04: 'the expected_loading of everything running on that node plus the starts already requested there' (machines
    unknown to mapper.nodes count for 0, as .get(machine_id, 0) does)"""
    m = machine_of(supvisors, i)
    return (supvisors.context.ghost_node_load[m] + node_requests(supvisors.mapper, lrm, m)) if m in supvisors.mapper.nodes else 0


def instance_load_abs(supvisors, lrm, i):
    """C14: 'loads include starts already requested'"""
    return supvisors.context.instances[i].ghost_load + get0(lrm, i)


def fits(supvisors, lrm, load, i):
    """C04: 'stays at or below 100 once the program's expected_loading is added'"""
    return node_load_abs(supvisors, lrm, i) + load <= 100


def qualifies(supvisors, identifiers, lrm, load, i):
    return i in identifiers and is_running(supvisors, i) and fits(supvisors, lrm, load, i)


def key_instance(supvisors, lrm, i):
    return (instance_load_abs(supvisors, lrm, i), node_load_abs(supvisors, lrm, i))


def key_node(supvisors, lrm, i):
    return (node_load_abs(supvisors, lrm, i), instance_load_abs(supvisors, lrm, i))


def running_are_identified(supvisors):
    """rely: an instance is only seen RUNNING after its handshake, which identifies it (SupvisorsMapper.identify) and files
    it under its machine in mapper.nodes"""
    return forall(supvisors.context.instances, lambda i: implies(is_running(supvisors, i), mapper_knows(supvisors, i)))


def graph_wf(supvisors):
    """shape of the Supvisors object graph as built once by initializer.Supvisors.__init__: components point back to it"""
    return supvisors.mapper.supvisors is supvisors and supvisors.context.supvisors is supvisors


def placement_pre(supvisors, lrm):
    return (graph_wf(supvisors) and nodes_wf(supvisors) and running_are_identified(supvisors)
            and forall(lrm, lambda i: mapper_knows(supvisors, i))
            and supvisors.mapper.local_identifier is not None)


def chosen_by_strategy(supvisors, strategy, identifiers, lrm, load, result):
    """C14, clause by clause (result is not None here)"""
    others = lambda cmp_key: forall(identifiers, lambda j: implies(qualifies(supvisors, identifiers, lrm, load, j), cmp_key(j)))
    return (implies(strategy == StartingStrategies.CONFIG,
                    forall(int, lambda q: implies(
                        0 <= q and q < len(identifiers) and qualifies(supvisors, identifiers, lrm, load, identifiers[q]),
                        exists(int, lambda p: 0 <= p and p <= q and identifiers[p] == result))))
            and implies(strategy == StartingStrategies.LESS_LOADED,
                        others(lambda j: key_instance(supvisors, lrm, result) <= key_instance(supvisors, lrm, j)))
            and implies(strategy == StartingStrategies.MOST_LOADED,
                        others(lambda j: key_instance(supvisors, lrm, result) >= key_instance(supvisors, lrm, j)))
            and implies(strategy == StartingStrategies.LESS_LOADED_NODE,
                        others(lambda j: key_node(supvisors, lrm, result) <= key_node(supvisors, lrm, j)))
            and implies(strategy == StartingStrategies.MOST_LOADED_NODE,
                        others(lambda j: key_node(supvisors, lrm, result) >= key_node(supvisors, lrm, j)))
            and implies(strategy == StartingStrategies.LOCAL, result == supvisors.mapper.local_identifier))


def none_iff_nobody(supvisors, strategy, identifiers, lrm, load, result):
    """C04: 'If no instance qualifies nothing is sent' - LOCAL only ever considers the requesting instance"""
    local = supvisors.mapper.local_identifier
    return (result is None) == (not qualifies(supvisors, identifiers, lrm, load, local)
                                if strategy == StartingStrategies.LOCAL
                                else not exists(identifiers, lambda i: qualifies(supvisors, identifiers, lrm, load, i)))


@contract('strategy:get_supvisors_instance', props=['C14', 'C04'])
class GetSupvisorsInstance:
    """C04: 'goes to an instance that the requester sees RUNNING ... and whose node load ... stays at or below 100 once the
    program's expected_loading is added. If no instance qualifies nothing is sent';  C14: 'Among the eligible instances
    the chosen one follows the requested strategy: ...; loads include starts already requested'"""
    raises = ()
    types = {'supvisors': 'Supvisors'}
    inline = ['strategy:create_strategy']

    def modifies():
        return []

    def pre_placement(supvisors, load_request_map):
        return placement_pre(supvisors, load_request_map)

    def post_candidate(supvisors, identifiers, result):
        return result is None or result in identifiers

    def post_running(supvisors, identifiers, result):
        return result is None or is_running(supvisors, result)

    def post_fits(supvisors, identifiers, expected_load, load_request_map, result):
        return result is None or fits(supvisors, load_request_map, expected_load, result)

    def post_none_iff(supvisors, strategy, identifiers, expected_load, load_request_map, result):
        return none_iff_nobody(supvisors, strategy, identifiers, load_request_map, expected_load, result)

    def post_strategy(supvisors, strategy, identifiers, expected_load, load_request_map, result):
        return result is None or chosen_by_strategy(supvisors, strategy, identifiers, load_request_map, expected_load, result)


@contract('strategy:get_node', props=['C14'])
class GetNode:
    """C14: 'for SINGLE_NODE to instances of one single node': the node returned is the machine of the instance that the
    strategy picks among the candidates for the given load (None exactly when nobody qualifies)"""
    raises = ()
    types = {'supvisors': 'Supvisors'}

    def modifies():
        return []

    def pre_placement(supvisors, load_request_map):
        return placement_pre(supvisors, load_request_map)

    def pre_identifiers_not_empty_strings(supvisors):
        """shape: '' is not an instance identifier (`if identifier:` would take it for 'no instance')"""
        return '' not in supvisors.context.instances

    def post_machine_of_the_choice(supvisors, strategy, identifiers, expected_load, load_request_map, result):
        return result is None or exists(identifiers, lambda i: (
            qualifies(supvisors, identifiers, load_request_map, expected_load, i)
            and chosen_by_strategy(supvisors, strategy, identifiers, load_request_map, expected_load, i)
            and result == machine_of(supvisors, i)))

    def post_none_iff(supvisors, strategy, identifiers, expected_load, load_request_map, result):
        return none_iff_nobody(supvisors, strategy, identifiers, load_request_map, expected_load, result)
