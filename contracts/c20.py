"""C20 - Statistics histories stay bounded, aligned and sane (statscompiler.py)."""
from pyvc.spec import *


@contract('statscompiler:trunc_depth', props=['C20'])
class TruncDepth:
    """'every history ... holds at most stats_histo points': the list is cut to its `depth` most recent elements
    (DESIGN C20.1: loop invariant 'lst is a suffix of old', post len' = min(len, depth))"""
    raises = ()
    types = {'lst': 'List[float]', 'depth': 'int'}

    def modifies(lst):
        return [contents(lst)]

    def pre_depth(depth):
        return depth >= 0

    def post_length(lst, depth, old):
        return len(lst) == ite(len(old.lst) <= depth, len(old.lst), depth)

    def post_most_recent_kept(lst, old):
        return forall(int, lambda j: implies(0 <= j and j < len(lst), lst[j] == old.lst[j + len(old.lst) - len(lst)]))

    def loop0_modifies(lst):
        return [contents(lst)]

    def loop0_inv(lst, depth, old):
        return (len(lst) <= len(old.lst) and (len(lst) == len(old.lst) or len(lst) >= depth)
                and forall(int, lambda j: implies(0 <= j and j < len(lst),
                                                  lst[j] == old.lst[j + len(old.lst) - len(lst)])))

    def loop0_decreases(lst):
        return len(lst)
