"""C20 - Statistics histories stay bounded, aligned and sane (statscompiler.py)."""
from pyvc.spec import *

GROUP = 'statsmodel'   # contracts of one group use each other's contracts at call sites (pyvc/hooks.py contract_for_call)


@contract('statscompiler:trunc_depth', props=['C20'])
class TruncDepth:
    """'every history ... holds at most stats_histo points': the list is cut to its `depth` most recent elements
    (DESIGN C20.1: loop invariant 'lst is a suffix of old', post len' = min(len, depth))"""
    raises = ()
    types = {'lst': 'List[float]', 'depth': 'int'}

    def modifies(lst):
        return [contents(lst)]

    def pre_depth(depth):
        return depth >= 0

    def post_length(lst, depth, old):
        return len(lst) == ite(len(old.lst) <= depth, len(old.lst), depth)

    def post_most_recent_kept(lst, old):
        return forall(int, lambda j: implies(0 <= j and j < len(lst), lst[j] == old.lst[j + len(old.lst) - len(lst)]))

    def loop0_modifies(lst):
        return [contents(lst)]

    def loop0_inv(lst, depth, old):
        return (len(lst) <= len(old.lst) and (len(lst) == len(old.lst) or len(lst) >= depth)
                and forall(int, lambda j: implies(0 <= j and j < len(lst),
                                                  lst[j] == old.lst[j + len(old.lst) - len(lst)])))

    def loop0_decreases(lst):
        return len(lst)


# ---------------------------------------------------------------------------------------------- process statistics
def proc_inv(p):
    """'the value series of one entity always have exactly as many points as their time series', 'at most stats_histo
    points'; the three histories are three distinct list objects (built by __init__)"""
    return (len(p.cpu) == len(p.times) and len(p.mem) == len(p.times) and len(p.times) <= p.depth and p.depth >= 0
            and p.cpu is not p.mem and p.cpu is not p.times and p.mem is not p.times)


def proc_sample(s):
    """shape of a process sample (statscollector.ProcessStatisticsCollector)"""
    return 'now' in s and 'proc_work' in s and 'proc_memory' in s


def proc_gate(p, sample):
    """'a new point is produced only when at least the period has elapsed since the previous one' (DESIGN C20.3)"""
    return bool(p.ref_stats) and sample['now'] - p.ref_stats['now'] >= p.period


@contract('statscompiler:ProcStatisticsInstance.push_statistics', props=['C20'])
class ProcInstancePush:
    raises = ()

    def modifies(self):
        return [field(self, 'ref_stats'), field(self, 'ref_start_time'), contents(self.cpu), contents(self.mem),
                contents(self.times)]

    def pre_invariant(self):
        return proc_inv(self) and implies(bool(self.ref_stats), proc_sample(self.ref_stats))

    def pre_sample(self, proc_stats):
        return proc_sample(proc_stats)

    def pre_period(self):
        """options.to_period(s): a period lies in [1, 3600] (C18)"""
        return self.period > 0

    def post_invariant(self):
        return proc_inv(self) and bool(self.ref_stats) and proc_sample(self.ref_stats)

    def post_result_iff_gate(self, proc_stats, result, old):
        return bool(result) == proc_gate(old.self, proc_stats)

    def post_new_point_iff_gate(self, proc_stats, old):
        n = len(old.self.times)
        return len(self.times) == ite(proc_gate(old.self, proc_stats), ite(n + 1 <= self.depth, n + 1, self.depth), n)

    def post_reference_rollover(self, proc_stats, old):
        """DESIGN C20.3: ref_stats' = stats exactly when a point is produced, and on the first push"""
        return self.ref_stats is ite(proc_gate(old.self, proc_stats) or not bool(old.self.ref_stats),
                                     proc_stats, old.self.ref_stats)

    def post_histories_only_shifted(self, proc_stats, old):
        """no new point: the histories are untouched; new point: former points kept in order behind the new one"""
        n = len(old.self.times)
        m = len(self.times)
        g = proc_gate(old.self, proc_stats)
        d = ite(g, n + 1 - m, 0)
        return forall(int, lambda j: implies(0 <= j and j < m and j + d < n,
                                             self.times[j] == old.self.times[j + d]
                                             and self.cpu[j] == old.self.cpu[j + d]
                                             and self.mem[j] == old.self.mem[j + d]))

    def post_new_values(self, proc_stats, old):
        m = len(self.times)
        ref = old.self.ref_stats
        return implies(proc_gate(old.self, proc_stats) and m > 0,
                       self.times[m - 1] == proc_stats['now'] - old.self.ref_start_time
                       and self.mem[m - 1] == proc_stats['proc_memory']
                       and self.cpu[m - 1] == 100.0 * ((proc_stats['proc_work'] - ref['proc_work'])
                                                       / (proc_stats['now'] - ref['now'])))

    def post_cpu_non_negative(self, proc_stats, old):
        """'CPU percentages computed from non-decreasing counters' are >= 0; the upper bound 100 per core needs
        d(proc_work) <= d(now) * cores, a fact about the kernel's accounting (DESIGN: not decided)"""
        m = len(self.times)
        return implies(proc_gate(old.self, proc_stats) and m > 0
                       and old.self.ref_stats['proc_work'] <= proc_stats['proc_work'], self.cpu[m - 1] >= 0)

    def post_start_time(self, proc_stats, old):
        """the times series counts from the first sample ever pushed"""
        return self.ref_start_time == ite(bool(old.self.ref_stats), old.self.ref_start_time, proc_stats['now'])


# ---------------------------------------------------------------------------------------------- instant statistics
def cpu_value(latest, ref):
    """CPU load between two (work, idle) jiffies samples, in percent"""
    work = latest[0] - ref[0]
    total = work + latest[1] - ref[1]
    return ite(total == 0, 0.0, 100.0 * work / total)


@contract('statscompiler:cpu_statistics', props=['C20'])
class CpuStatistics:
    """'CPU percentages computed from non-decreasing counters lie in [0,100] per core' (DESIGN C20.4: each value in
    [0, 100], total = 0 => 0)"""
    raises = ()
    types = {'cpu': 'List[float]'}

    def modifies():
        return []

    def post_fresh(result):
        return was_fresh(result)

    def post_one_value_per_common_core(latest_values, ref_values, result):
        """zip(): the shorter of the two samples decides (a sample with fewer CPU entries is silently truncated)"""
        return len(result) == ite(len(latest_values) <= len(ref_values), len(latest_values), len(ref_values))

    def post_values(latest_values, ref_values, result):
        return forall(int, lambda j: implies(0 <= j and j < len(result),
                                             result[j] == cpu_value(latest_values[j], ref_values[j])))

    def post_percent(latest_values, ref_values, result):
        return forall(int, lambda j: implies(
            0 <= j and j < len(result)
            and ref_values[j][0] <= latest_values[j][0] and ref_values[j][1] <= latest_values[j][1],
            0 <= result[j] and result[j] <= 100))

    def loop0_modifies(cpu):
        return [contents(cpu)]

    def loop0_inv(k, cpu, latest_values, ref_values):
        return (was_fresh(cpu) and len(cpu) == k
                and forall(int, lambda j: implies(0 <= j and j < k, cpu[j] == cpu_value(latest_values[j], ref_values[j]))))


def io_counted(k, last_values, ref_values):
    """interface present in both samples and neither counter wrapped"""
    return (k in last_values and k in ref_values
            and ref_values[k][0] <= last_values[k][0] and ref_values[k][1] <= last_values[k][1])


def io_entry_ok(io_stats, k, last_values, ref_values, duration):
    return (len(io_stats[k]) == 2
            and io_stats[k][0] == (last_values[k][0] - ref_values[k][0]) / duration / 128
            and io_stats[k][1] == (last_values[k][1] - ref_values[k][1]) / duration / 128)


def io_lists_fresh_and_distinct(io_stats):
    return forall(str, str, lambda a, b: implies(a in io_stats, was_fresh(io_stats[a]) and is_alloc(io_stats[a]) and implies(
        b in io_stats and a != b, io_stats[a] is not io_stats[b])))


@contract('statscompiler:io_statistics', props=['C20'])
class IoStatistics:
    """'I/O rates are finite and non-negative' (DESIGN C20.4: duration > 0 => rates >= 0 and finite, only keys present
    in both samples with non-decreasing counters: a wrapped counter or a vanished / new interface gives no rate)"""
    raises = ()
    types = {'io_stats': 'Dict[str, List[float]]'}

    def modifies():
        return []

    def pre_duration(duration):
        """call site integrate(): duration = now - ref.now >= period > 0 (period gate)"""
        return duration > 0

    def post_fresh(result):
        return was_fresh(result) and io_lists_fresh_and_distinct(result)

    def post_keys(last_values, ref_values, result):
        return forall(str, lambda k: (k in result) == io_counted(k, last_values, ref_values))

    def post_rates(last_values, ref_values, duration, result):
        return forall(str, lambda k: implies(k in result, io_entry_ok(result, k, last_values, ref_values, duration)))

    def post_non_negative(result):
        return forall(str, lambda k: implies(k in result, result[k][0] >= 0 and result[k][1] >= 0))

    def loop0_modifies(io_stats):
        return [contents(io_stats)]

    def loop0_inv(seen, io_stats, last_values, ref_values, duration):
        return (was_fresh(io_stats) and io_lists_fresh_and_distinct(io_stats)
                and forall(str, lambda k: (k in io_stats) == (k in seen and io_counted(k, last_values, ref_values)))
                and forall(str, lambda k: implies(k in io_stats,
                                                  io_entry_ok(io_stats, k, last_values, ref_values, duration))))


# ---------------------------------------------------------------------------------------------- host statistics
def capped(n, depth):
    """length of a history of n points after one more point was pushed and the history was cut to depth"""
    return ite(n + 1 <= depth, n + 1, depth)


def cpu_part_separated(h):
    """the per-core histories are distinct list objects, none of them is the list that holds them
    (built by `[[] for _ in stats['cpu']]`)"""
    return (forall(h.cpu, lambda l: l is not h.cpu)
            and forall(int, int, lambda i, j: implies(0 <= i and i < j and j < len(h.cpu), h.cpu[i] is not h.cpu[j])))


@contract('statscompiler:HostStatisticsInstance._push_cpu_stats', props=['C20'])
class PushCpuStats:
    """'the value series of one entity always have exactly as many points as their time series': every per-core history
    gets exactly one more point (then cut to depth).  Internal helper: the precondition is what push_statistics must
    establish at the call."""
    raises = ()

    def modifies(self, cpu_stats):
        return [contents(cpu_stats), contents_where(lambda r: exists(self.cpu, lambda l: r is l), 'list')]

    def pre_separated(self, cpu_stats):
        return (cpu_part_separated(self) and cpu_stats is not self.cpu
                and forall(self.cpu, lambda l: l is not cpu_stats))

    def pre_depth(self):
        return self.depth >= 0

    # NO precondition len(cpu_stats) >= len(self.cpu): push_statistics cannot establish it (the number of values is
    # min(len(sample['cpu']), len(ref['cpu'])), the number of histories is that of the FIRST sample), so the helper is
    # verified without it: `safe:IndexError` at the pop is refuted on the unchanged tree = known finding
    # C20-cpu-count-shrinks (DESIGN Appendix A18).  The postconditions below describe the normal return.

    def post_one_more_point_per_core(self, old):
        return forall(int, lambda i: implies(0 <= i and i < len(self.cpu),
                                             len(self.cpu[i]) == capped(len(old.self.cpu[i]), self.depth)))

    def post_values(self, old):
        return forall(int, lambda i: implies(0 <= i and i < len(self.cpu) and self.depth >= 1,
                                             self.cpu[i][len(self.cpu[i]) - 1] == old.cpu_stats[i]))

    def post_consumed(self, cpu_stats, old):
        return len(cpu_stats) == len(old.cpu_stats) - len(self.cpu)

    def loop0_modifies(self, cpu_stats):
        return [contents(cpu_stats), contents_where(lambda r: exists(self.cpu, lambda l: r is l), 'list')]

    def loop0_inv(self, k, cpu_stats, old):
        return (len(cpu_stats) == len(old.cpu_stats) - k
                and forall(int, lambda j: implies(0 <= j and j < len(cpu_stats), cpu_stats[j] == old.cpu_stats[j + k]))
                and forall(int, lambda i: implies(
                    0 <= i and i < len(self.cpu),
                    ite(i < k,
                        len(self.cpu[i]) == capped(len(old.self.cpu[i]), self.depth)
                        and implies(self.depth >= 1, self.cpu[i][len(self.cpu[i]) - 1] == old.cpu_stats[i]),
                        len(self.cpu[i]) == len(old.self.cpu[i])))))


def host_core_inv(h):
    """'at most stats_histo points', 'the value series of one entity always have exactly as many points as their time
    series' for the times / mem / per-core cpu histories (DESIGN C20.2); depth = stats_histo lies in [10, 1500] (C18)"""
    n = len(h.times)
    return (h.depth >= 1 and n <= h.depth and len(h.mem) == n and forall(h.cpu, lambda l: len(l) == n)
            and implies(not bool(h.ref_stats), n == 0))


def host_core_sep(h):
    """times, mem, the cpu list and the per-core lists are distinct list objects"""
    return (h.times is not h.mem and h.cpu is not h.times and h.cpu is not h.mem
            and forall(h.cpu, lambda l: l is not h.times and l is not h.mem) and cpu_part_separated(h))


def host_sample(s):
    """shape of a host sample (statscollector.HostStatisticsCollector.collect_host_statistics)"""
    return 'now' in s and 'cpu' in s and 'mem' in s and 'net_io' in s and 'disk_io' in s and 'disk_usage' in s


def host_gate(h, sample):
    """'a new point is produced only when at least the period has elapsed since the previous one' (DESIGN C20.3)"""
    return bool(h.ref_stats) and sample['now'] - h.ref_stats['now'] >= h.period


def host_ref_ok(h):
    """the reference sample is a host sample.  NOTE: 'one history per CPU entry of the reference sample' is NOT an
    invariant of the code: zip() in cpu_statistics silently truncates a longer sample, which then becomes the reference."""
    return implies(bool(h.ref_stats), host_sample(h.ref_stats))


def is_core_list(h, r):
    """r is one of the times / mem / cpu history lists of the instance"""
    return r is h.times or r is h.mem or r is h.cpu or exists(h.cpu, lambda l: r is l)


@contract('statscompiler:HostStatisticsInstance._push_timed_stats', props=['C20'])
class PushTimedStats:
    """FRAME ONLY, ASSUMED (NOT verified, see not_decided of C20): the helper writes the dictionary it is given, pops the
    integrated values and appends to / truncates history lists other than the times / mem / cpu lists of the instance
    (it only reaches the lists stored in the dictionary, which are created fresh for each new key and never shared with
    the other series).  The alignment of the interface / disk series (DESIGN C20.2, second half) is NOT proved."""
    assumed = True
    raises = ()

    def modifies(self, ref_stats, io_stats):
        return [contents(ref_stats), contents(io_stats), contents_where(lambda r: not is_core_list(self, r), 'list')]


@contract('statscompiler:HostStatisticsInstance.push_statistics', props=['C20'])
class HostInstancePush:
    """'every history kept per instance ... and period holds at most stats_histo points, the value series of one entity
    always have exactly as many points as their time series, and a new point is produced only when at least the period
    has elapsed since the previous one' - for the times, mem and per-core cpu series of one (instance, period)."""
    raises = ()

    def pre_invariant(self):
        return host_core_inv(self) and host_core_sep(self) and host_ref_ok(self)

    def pre_sample(self, stats):
        return host_sample(stats)

    def pre_period(self):
        """options.to_period(s): a period lies in [1, 3600] (C18)"""
        return self.period > 0

    def post_invariant(self):
        return host_core_inv(self) and host_core_sep(self)

    def post_reference(self):
        return bool(self.ref_stats) and host_ref_ok(self)

    def post_result_iff_gate(self, stats, result, old):
        return bool(result) == host_gate(old.self, stats)

    def post_new_point_iff_gate(self, stats, old):
        n = len(old.self.times)
        return len(self.times) == ite(host_gate(old.self, stats), capped(n, self.depth), n)

    def post_reference_rollover(self, stats, old):
        """DESIGN C20.3: ref_stats' = stats exactly when a point is produced, and on the first push"""
        return self.ref_stats is ite(host_gate(old.self, stats) or not bool(old.self.ref_stats), stats, old.self.ref_stats)

    def post_start_time(self, stats, old):
        return self.ref_start_time == ite(bool(old.self.ref_stats), old.self.ref_start_time, stats['now'])

    def post_new_values(self, stats, old):
        m = len(self.times)
        return implies(host_gate(old.self, stats),
                       self.times[m - 1] == stats['now'] - old.self.ref_start_time and self.mem[m - 1] == stats['mem'])
