"""C02 - Supvisors state only moves along the documented state graph.

Also holds the per-state-class `next()` contracts shared with C08 (clause 1: no self-decision refused by the table) and
C09 (clause 3: ending-state guards), because they are clauses on the same functions.

Abstract view used by the clauses (all read from raw fields):
  ISM(s)      = supvisors.state_modes.instance_state_modes          identifier -> StateModes (local + last publications)
  LOCAL(s)    = ISM(s)[mapper.local_identifier]                     what this instance publishes
  cur(s)      = LOCAL(s).state                                      the local FSM state (anchor 'fsm state')
  master(s)   = LOCAL(s).master_identifier
  sees_running(s, i) = LOCAL(s).instance_states[i] == RUNNING       'the instance sees i RUNNING'
  master_state_is(s, v) = ISM(s)[master(s)].state == v              last state published by the Master
"""
from pyvc.spec import *

MD = (SupvisorsStates.DISTRIBUTION, SupvisorsStates.OPERATION, SupvisorsStates.CONCILIATION,
      SupvisorsStates.RESTARTING, SupvisorsStates.SHUTTING_DOWN)
SYNC_OPTIONS = (SynchronizationOptions.STRICT, SynchronizationOptions.LIST, SynchronizationOptions.TIMEOUT,
                SynchronizationOptions.CORE, SynchronizationOptions.USER)
# heap arrays no call-out of the FSM touches: the wiring of the Supvisors structure and the local FSM state
PROT = ('F:supvisors:', 'F:state_modes:', 'F:context:', 'F:mapper:', 'F:options:', 'F:fsm:', 'F:starter:', 'F:stopper:',
        'F:failure_handler:', 'F:rpc_handler:', 'F:local_identifier:', 'F:instance_state_modes:', 'F:instance_states:',
        'F:instances:', 'F:synchro_options:', 'F:supvisors_failure_strategy:', 'F:sync_alerts:', 'F:instance:',
        'F:state:')
# ... and, for the call-outs into Starter / Stopper / failure handler / conciliation, the whole state & modes view
VIEW_PROT = PROT + ('F:master_identifier:', 'F:stable_identifiers:', 'F:degraded_mode:')


# ------------------------------------------------------------------------------------------ view
def ISM(s):
    return s.supvisors.state_modes.instance_state_modes


def LID(s):
    return s.supvisors.mapper.local_identifier


def LOCAL(s):
    return ISM(s)[LID(s)]


def cur(s):
    return LOCAL(s).state


def master(s):
    return LOCAL(s).master_identifier


def sees_running(s, i):
    return i in LOCAL(s).instance_states and LOCAL(s).instance_states[i] == SupvisorsInstanceStates.RUNNING


def is_master(s):
    return master(s) == LID(s)


def master_state_is(s, v):
    return master(s) in ISM(s) and ISM(s)[master(s)].state == v


def own_state(s):
    """the state a state object stands for (inverse of FiniteStateMachine._StateInstances, compared with it by
    structural_c02)"""
    return ite(isinstance(s, OffState), SupvisorsStates.OFF,
               ite(isinstance(s, SynchronizationState), SupvisorsStates.SYNCHRONIZATION,
                   ite(isinstance(s, ElectionState), SupvisorsStates.ELECTION,
                       ite(isinstance(s, DistributionState), SupvisorsStates.DISTRIBUTION,
                           ite(isinstance(s, OperationState), SupvisorsStates.OPERATION,
                               ite(isinstance(s, ConciliationState), SupvisorsStates.CONCILIATION,
                                   ite(isinstance(s, RestartingState), SupvisorsStates.RESTARTING,
                                       ite(isinstance(s, ShuttingDownState), SupvisorsStates.SHUTTING_DOWN,
                                           SupvisorsStates.FINAL))))))))


def concrete(s):
    """s is an instance of one of the nine classes of _StateInstances (the abstract bases are never instantiated)"""
    return (isinstance(s, OffState) or isinstance(s, SynchronizationState) or isinstance(s, ElectionState)
            or isinstance(s, DistributionState) or isinstance(s, OperationState) or isinstance(s, ConciliationState)
            or isinstance(s, RestartingState) or isinstance(s, ShuttingDownState) or isinstance(s, FinalState))


# ------------------------------------------------------------------------------------------ shape validity
def valid(sv):
    """shape validity of the Supvisors structure the FSM relies on everywhere: wiring done once in
    initializer.Supvisors.__init__, the local identifier is a key of every per-instance map, and the per-instance maps
    have the same keys (DESIGN 1.4)"""
    lid = sv.mapper.local_identifier
    ism = sv.state_modes.instance_state_modes
    return (sv.state_modes.supvisors is sv and sv.context.supvisors is sv and sv.fsm.supvisors is sv
            and sv.starter.supvisors is sv and sv.stopper.supvisors is sv and sv.failure_handler.supvisors is sv
            and lid is not None and lid != '' and lid in ism and lid in sv.context.instances and '' not in ism
            and forall(str, lambda i: implies(i in ism, i in ism[lid].instance_states)))


def valid_sm(sm):
    return sm.supvisors.state_modes is sm and valid(sm.supvisors)


def coupled(sv):
    """the local view of the local instance is the state held by the Context (SupvisorsInstanceStatus.state setter is
    the only writer of both, see contract InstanceStateSetter)"""
    lid = sv.mapper.local_identifier
    return sv.context.instances[lid]._state == sv.state_modes.instance_state_modes[lid].instance_states[lid]


def master_seen_running(s):
    """J (rely condition of C01, DESIGN C02 'Assumed'): a known Master is an instance seen RUNNING.  Kept by
    update_instance_state (verified below: the Master is reset when it leaves RUNNING)"""
    return implies(master(s) != '', sees_running(s, master(s)))


def valid_state(s):
    return (valid(s.supvisors) and coupled(s.supvisors) and concrete(s)
            and all(o in s.sync_alerts for o in SYNC_OPTIONS))


# ------------------------------------------------------------------------------------------ the clauses
def md_ok(s, v):
    """C02 clause 3 for a value v returned by next(): 'DISTRIBUTION, OPERATION, CONCILIATION, RESTARTING and
    SHUTTING_DOWN are only entered with a known Master that the instance sees RUNNING, and an instance that is not the
    Master enters each of them only after its Master has'"""
    return implies(v is not None and v in MD and v != own_state(s),
                   master(s) != '' and sees_running(s, master(s)) and (is_master(s) or master_state_is(s, v)))


def md_ok_for(s, v, target):
    return implies(v is not None and v == target, md_ok(s, v))


def in_table(s, v):
    """C08 clause 1: v is the state itself, no decision, or a transition the table accepts"""
    return v is None or v == own_state(s) or v in FiniteStateMachine._Transitions[own_state(s)]


def wiring_unchanged(s, o):
    return s.supvisors is o.supvisors and LID(s) == LID(o) and ISM(s) is ISM(o)


# ------------------------------------------------------------------------------------------ C02.2: the single writer
@contract('statemodes:SupvisorsStateModes.state[setter]', props=['C02'])
class StateSetter:
    """'The Supvisors state published by any instance only changes along the documented graph' + 'DISTRIBUTION ... are
    only entered with a known Master ...'.  The setter is the only writer of the local FSM state and set_state its only
    caller (structural_c02), so its precondition IS the statement: it is an obligation at that single call site."""
    raises = ()

    def pre_valid(self):
        return valid_sm(self)

    def pre_along_the_table(self, fsm_state):
        """every executed write (old, new) satisfies new in _Transitions[old] (and _Transitions is inside the documented
        graph: structural_c02)"""
        return LOCAL(self).state == fsm_state or fsm_state in FiniteStateMachine._Transitions[LOCAL(self).state]

    def pre_master_driven(self, fsm_state):
        return implies(fsm_state in MD and fsm_state != LOCAL(self).state,
                       master(self) != '' and sees_running(self, master(self))
                       and (is_master(self) or master_state_is(self, fsm_state)))

    def modifies(self):
        return [field(LOCAL(self), 'state')]

    def post_written(self, fsm_state):
        return LOCAL(self).state == fsm_state

    def post_every_transition_publishes(self, fsm_state, old):
        """'published on every change' (anchor: fsm state), and only then"""
        return count_effects('publish_status') == (1 if LOCAL(old.self).state != fsm_state else 0)


@contract('statemodes:StateModes.serial', props=['C02'])
class StateModesSerial:
    """what is published is the current state ('The Supvisors state published by any instance ...')"""
    raises = ()
    returns = 'Payload'

    def modifies(self):
        return []

    def post_state(self, result):
        return (result['fsm_statecode'] == self.state.value and result['master_identifier'] == self.master_identifier)


@contract('statemodes:SupvisorsStateModes.publish_status', props=['C02'])
class PublishStatus:
    """exactly one STATE publication carrying the current local state"""
    raises = ()
    effect = 'publish_status'

    def pre_valid(self):
        return valid_sm(self)

    def modifies(self):
        return []

    def post_published(self):
        return (count_effects('send_state_event') == 1
                and effect_at('send_state_event', 0)[0]['fsm_statecode'] == LOCAL(self).state.value)


# ------------------------------------------------------------------------------------------ StateModes queries / updates
@contract('statemodes:SupvisorsStateModes.check_master', props=['C02', 'C01'])
class CheckMaster:
    """'a known Master': every instance seen RUNNING declares a Master and they all declare the same one"""
    raises = ()

    def pre_valid(self):
        return valid_sm(self)

    def modifies(self, election):
        return []

    def post_definition(self, result):
        ism = self.instance_state_modes
        return result == (forall(str, lambda i: implies(i in ism and sees_running(self, i), ism[i].master_identifier != ''))
                          and forall(str, str, lambda i, j: implies(i in ism and j in ism and sees_running(self, i)
                                                                    and sees_running(self, j),
                                                                    ism[i].master_identifier == ism[j].master_identifier)))


@contract('statemodes:SupvisorsStateModes.evaluate_stability', props=['C02'])
class EvaluateStability:
    """only the stability synthesis is written (C01 clause 4 states its value)"""
    raises = ()

    def pre_valid(self):
        return valid_sm(self)

    def modifies(self):
        return [field(self, 'stable_identifiers')]


@contract('statemodes:SupvisorsStateModes.degraded_mode[setter]', props=['C02'])
class DegradedModeSetter:
    raises = ()

    def pre_valid(self):
        return valid_sm(self)

    def modifies(self):
        return [field(LOCAL(self), 'degraded_mode')]

    def post_written(self, mode):
        return LOCAL(self).degraded_mode == mode


@contract('statemodes:SupvisorsStateModes.initial_running', props=['C02'])
class InitialRunning:
    """side-effect free query (its value is C01 / C08's synchronisation condition)"""
    raises = ()

    def modifies(self):
        return []


@contract('statemodes:SupvisorsStateModes.all_running', props=['C02'])
class AllRunning:
    raises = ()

    def modifies(self):
        return []


@contract('statemodes:SupvisorsStateModes.core_instances_running', props=['C02'])
class CoreInstancesRunning:
    raises = ()

    def modifies(self):
        return []


@contract('statemodes:SupvisorsStateModes.update_instance_state', props=['C02', 'C01'])
class UpdateInstanceState:
    """J is kept: 'Master reset when it leaves RUNNING'; the local entry of the map is never replaced; the local FSM
    state is not written (single writer, semantic part)"""
    raises = ()

    def pre_valid(self, identifier):
        return valid_sm(self) and identifier in self.instance_state_modes

    def pre_master_seen_running(self):
        return master_seen_running(self)

    def modifies(self, identifier):
        return [contents(LOCAL(self).instance_states), contents(self.instance_state_modes),
                field(LOCAL(self), 'master_identifier'), field(self, 'update_mark')]

    def post_view(self, identifier, new_state, old):
        st, ost = LOCAL(self).instance_states, LOCAL(old.self).instance_states
        return (LOCAL(self) is LOCAL(old.self) and LOCAL(self).state == LOCAL(old.self).state
                and forall(str, lambda i: (i in st) == (i in ost or i == identifier)
                           and implies(i in st, st[i] == (new_state if i == identifier else ost[i]))))

    def post_master_seen_running(self):
        return master_seen_running(self) and valid_sm(self)
