"""C02 - Supvisors state only moves along the documented state graph.

Also holds the per-state-class `next()` contracts shared with C08 (clause 1: no self-decision refused by the table) and
C09 (clause 3: ending-state guards), because they are clauses on the same functions.

Abstract view used by the clauses (all read from raw fields):
  ISM(s)      = supvisors.state_modes.instance_state_modes          identifier -> StateModes (local + last publications)
  LOCAL(s)    = ISM(s)[mapper.local_identifier]                     what this instance publishes
  cur(s)      = LOCAL(s).state                                      the local FSM state (anchor 'fsm state')
  master(s)   = LOCAL(s).master_identifier
  sees_running(s, i) = LOCAL(s).instance_states[i] == RUNNING       'the instance sees i RUNNING'
  master_state_is(s, v) = ISM(s)[master(s)].state == v              last state published by the Master
"""
from pyvc.spec import *

GROUP = 'fsm'   # contracts of one group use each other's contracts at call sites (pyvc/hooks.py contract_for_call)

MD = (SupvisorsStates.DISTRIBUTION, SupvisorsStates.OPERATION, SupvisorsStates.CONCILIATION,
      SupvisorsStates.RESTARTING, SupvisorsStates.SHUTTING_DOWN)
SYNC_OPTIONS = (SynchronizationOptions.STRICT, SynchronizationOptions.LIST, SynchronizationOptions.TIMEOUT,
                SynchronizationOptions.CORE, SynchronizationOptions.USER)
ALL_STATES = (SupvisorsStates.OFF, SupvisorsStates.SYNCHRONIZATION, SupvisorsStates.ELECTION,
              SupvisorsStates.DISTRIBUTION, SupvisorsStates.OPERATION, SupvisorsStates.CONCILIATION,
              SupvisorsStates.RESTARTING, SupvisorsStates.SHUTTING_DOWN, SupvisorsStates.FINAL)
# heap arrays no call-out of the FSM touches: the wiring of the Supvisors structure and the local FSM state
PROT = ('F:supvisors:', 'F:state_modes:', 'F:context:', 'F:mapper:', 'F:options:', 'F:fsm:', 'F:starter:', 'F:stopper:',
        'F:failure_handler:', 'F:rpc_handler:', 'F:local_identifier:', 'F:instance_state_modes:', 'F:instance_states:',
        'F:instances:', 'F:synchro_options:', 'F:supvisors_failure_strategy:', 'F:sync_alerts:', 'F:instance:',
        'F:state:')
WIRING = ('F:supvisors:', 'F:state_modes:', 'F:context:', 'F:mapper:', 'F:options:', 'F:fsm:', 'F:starter:', 'F:stopper:',
          'F:failure_handler:', 'F:rpc_handler:', 'F:local_identifier:', 'F:instance_state_modes:')
# ... and, for the call-outs into Starter / Stopper / failure handler / conciliation, the whole state & modes view
# ... and the report fields of the state objects (lost_instances / lost_processes: only assigned by
# _SupvisorsBaseState.__init__ / _check_instances - structural_c02 obligation 6 scans every assignment of the package)
VIEW_PROT = PROT + ('F:master_identifier:', 'F:stable_identifiers:', 'F:degraded_mode:', 'F:lost_instances:',
                    'F:lost_processes:')


# ------------------------------------------------------------------------------------------ view
def ISM(s):
    return s.supvisors.state_modes.instance_state_modes


def LID(s):
    return s.supvisors.mapper.local_identifier


def LOCAL(s):
    return ISM(s)[LID(s)]


def cur(s):
    return LOCAL(s).state


def master(s):
    return LOCAL(s).master_identifier


def sees_running(s, i):
    return i in LOCAL(s).instance_states and LOCAL(s).instance_states[i] == SupvisorsInstanceStates.RUNNING


def is_master(s):
    return master(s) == LID(s)


def master_state_is(s, v):
    return master(s) in ISM(s) and ISM(s)[master(s)].state == v


def own_state(s):
    """the state a state object stands for (inverse of FiniteStateMachine._StateInstances, compared with it by
    structural_c02)"""
    return ite(isinstance(s, OffState), SupvisorsStates.OFF,
               ite(isinstance(s, SynchronizationState), SupvisorsStates.SYNCHRONIZATION,
                   ite(isinstance(s, ElectionState), SupvisorsStates.ELECTION,
                       ite(isinstance(s, DistributionState), SupvisorsStates.DISTRIBUTION,
                           ite(isinstance(s, OperationState), SupvisorsStates.OPERATION,
                               ite(isinstance(s, ConciliationState), SupvisorsStates.CONCILIATION,
                                   ite(isinstance(s, RestartingState), SupvisorsStates.RESTARTING,
                                       ite(isinstance(s, ShuttingDownState), SupvisorsStates.SHUTTING_DOWN,
                                           SupvisorsStates.FINAL))))))))


def concrete(s):
    """s is an instance of one of the nine classes of _StateInstances (the abstract bases are never instantiated)"""
    return (isinstance(s, OffState) or isinstance(s, SynchronizationState) or isinstance(s, ElectionState)
            or isinstance(s, DistributionState) or isinstance(s, OperationState) or isinstance(s, ConciliationState)
            or isinstance(s, RestartingState) or isinstance(s, ShuttingDownState) or isinstance(s, FinalState))


# ------------------------------------------------------------------------------------------ shape validity
def valid(sv):
    """shape validity of the Supvisors structure the FSM relies on everywhere: wiring done once in
    initializer.Supvisors.__init__, the local identifier is a key of every per-instance map, and the per-instance maps
    have the same keys (DESIGN 1.4)"""
    lid = sv.mapper.local_identifier
    ism = sv.state_modes.instance_state_modes
    return (sv.state_modes.supvisors is sv and sv.context.supvisors is sv and sv.fsm.supvisors is sv
            and sv.starter.supvisors is sv and sv.stopper.supvisors is sv and sv.failure_handler.supvisors is sv
            and lid is not None and lid != '' and lid in ism and lid in sv.context.instances and '' not in ism
            and forall(str, lambda i: implies(i in ism, i in ism[lid].instance_states)))


def valid_sm(sm):
    return sm.supvisors.state_modes is sm and valid(sm.supvisors)


def coupled(sv):
    """the local view of the local instance is the state held by the Context (SupvisorsInstanceStatus.state setter is
    the only writer of both, see contract InstanceStateSetter)"""
    lid = sv.mapper.local_identifier
    return sv.context.instances[lid]._state == sv.state_modes.instance_state_modes[lid].instance_states[lid]


def master_seen_running(s):
    """J (rely condition of C01, DESIGN C02 'Assumed'): a known Master is an instance seen RUNNING.  Kept by
    update_instance_state (verified below: the Master is reset when it leaves RUNNING)"""
    return implies(master(s) != '', sees_running(s, master(s)))


def valid_state(s):
    """a state object under evaluation is THE current state object of the FSM (FiniteStateMachine.next / set_state call
    `self.instance.next()`), it is one of the nine concrete classes, and its alert flags exist for every option
    (_SupvisorsBaseState.__init__)"""
    return (valid(s.supvisors) and coupled(s.supvisors) and concrete(s) and s.supvisors.fsm.instance is s
            and all(o in s.sync_alerts for o in SYNC_OPTIONS))


def but_view(s):
    """frame of a call-out into Context / Starter / Stopper / failure handler / conciliation that keeps the whole state &
    modes view: anything may change except the wiring, the view fields and the alert flags of the current state object"""
    return everything_but(*VIEW_PROT, contents(s.supvisors.fsm.instance.sync_alerts))


def but_wiring(s):
    return everything_but(*PROT, contents(s.supvisors.fsm.instance.sync_alerts))


# ------------------------------------------------------------------------------------------ the clauses
def md_ok(s, v):
    """C02 clause 3 for a value v returned by next(): 'DISTRIBUTION, OPERATION, CONCILIATION, RESTARTING and
    SHUTTING_DOWN are only entered with a known Master that the instance sees RUNNING, and an instance that is not the
    Master enters each of them only after its Master has'"""
    return implies(v is not None and v in MD and v != own_state(s),
                   master(s) != '' and sees_running(s, master(s)) and (is_master(s) or master_state_is(s, v)))


def md_ok_for(s, v, target):
    return implies(v is not None and v == target, md_ok(s, v))


def table_allows(a, b):
    """b in FiniteStateMachine._Transitions[a], read from the class-level table of the code"""
    return any(a == k and b in FiniteStateMachine._Transitions[k] for k in ALL_STATES)


def in_table(s, v):
    """C08 clause 1: v is the state itself, no decision, or a transition the table accepts"""
    return v is None or v == own_state(s) or table_allows(own_state(s), v)


def wiring_unchanged(s, o):
    return s.supvisors is o.supvisors and LID(s) == LID(o) and ISM(s) is ISM(o)


# ------------------------------------------------------------------------------------------ C02.2: the single writer
@contract('statemodes:SupvisorsStateModes.state[setter]', props=['C02'])
class StateSetter:
    """'The Supvisors state published by any instance only changes along the documented graph' + 'DISTRIBUTION ... are
    only entered with a known Master ...'.  The setter is the only writer of the local FSM state and set_state its only
    caller (structural_c02), so its precondition IS the statement: it is an obligation at that single call site."""
    raises = ()

    def pre_valid(self):
        return valid_sm(self)

    def pre_along_the_table(self, fsm_state):
        """every executed write (old, new) satisfies new in _Transitions[old] (and _Transitions is inside the documented
        graph: structural_c02)"""
        return LOCAL(self).state == fsm_state or table_allows(LOCAL(self).state, fsm_state)

    def pre_master_driven(self, fsm_state):
        return implies(fsm_state in MD and fsm_state != LOCAL(self).state,
                       master(self) != '' and sees_running(self, master(self))
                       and (is_master(self) or master_state_is(self, fsm_state)))

    def modifies(self):
        return [field(LOCAL(self), 'state')]

    def post_written(self, fsm_state):
        return LOCAL(self).state == fsm_state

    def post_every_transition_publishes(self, fsm_state, old):
        """'published on every change' (anchor: fsm state), and only then"""
        return count_effects('publish_status') == (1 if LOCAL(old.self).state != fsm_state else 0)


@contract('statemodes:StateModes.serial', props=['C02'])
class StateModesSerial:
    """what is published is the current state ('The Supvisors state published by any instance ...')"""
    raises = ()
    returns = 'Payload'

    def modifies(self):
        return []

    def post_state(self, result):
        return (result['fsm_statecode'] == self.state.value and result['master_identifier'] == self.master_identifier)


@contract('statemodes:SupvisorsStateModes.publish_status', props=['C02'])
class PublishStatus:
    """exactly one STATE publication carrying the current local state"""
    raises = ()
    effect = 'publish_status'

    def pre_valid(self):
        return valid_sm(self)

    def modifies(self):
        return []

    def post_published(self):
        return (count_effects('send_state_event') == 1
                and effect_at('send_state_event', 0)[0]['fsm_statecode'] == LOCAL(self).state.value)


# ------------------------------------------------------------------------------------------ StateModes queries / updates
@contract('statemodes:SupvisorsStateModes.check_master', props=['C02', 'C01'])
class CheckMaster:
    """'a known Master': every instance seen RUNNING declares a Master and they all declare the same one"""
    raises = ()

    def pre_valid(self):
        return valid_sm(self)

    def modifies(self, election):
        return []

    def post_definition(self, result):
        ism = self.instance_state_modes
        return result == (forall(str, lambda i: implies(i in ism and sees_running(self, i), ism[i].master_identifier != ''))
                          and forall(str, str, lambda i, j: implies(i in ism and j in ism and sees_running(self, i)
                                                                    and sees_running(self, j),
                                                                    ism[i].master_identifier == ism[j].master_identifier)))


@contract('statemodes:SupvisorsStateModes.degraded_mode[setter]', props=['C02'])
class DegradedModeSetter:
    raises = ()

    def pre_valid(self):
        return valid_sm(self)

    def modifies(self):
        return [field(LOCAL(self), 'degraded_mode')]

    def post_written(self, mode):
        return LOCAL(self).degraded_mode == mode


@contract('statemodes:SupvisorsStateModes.initial_running', props=['C02'])
class InitialRunning:
    """side-effect free query (its value is C01 / C08's synchronisation condition)"""
    raises = ()

    def modifies(self):
        return []


@contract('statemodes:SupvisorsStateModes.all_running', props=['C02'])
class AllRunning:
    raises = ()

    def modifies(self):
        return []


@contract('statemodes:SupvisorsStateModes.core_instances_running', props=['C02'])
class CoreInstancesRunning:
    raises = ()

    def modifies(self):
        return []


@contract('statemodes:SupvisorsStateModes.update_instance_state', props=['C02', 'C01'])
class UpdateInstanceState:
    """J is kept: 'Master reset when it leaves RUNNING'; the local entry of the map is never replaced; the local FSM
    state is not written (single writer, semantic part)"""
    raises = ()

    def pre_valid(self, identifier):
        return valid_sm(self) and identifier in self.instance_state_modes

    def pre_master_seen_running(self):
        return master_seen_running(self)

    def modifies(self, identifier):
        return [contents(LOCAL(self).instance_states), contents(self.instance_state_modes),
                field(LOCAL(self), 'master_identifier'), field(self, 'update_mark')]

    def post_view(self, identifier, new_state, old):
        st, ost = LOCAL(self).instance_states, LOCAL(old.self).instance_states
        return (LOCAL(self) is LOCAL(old.self) and LOCAL(self).state == LOCAL(old.self).state
                and forall(str, lambda i: (i in st) == (i in ost or i == identifier)
                           and implies(i in st, st[i] == (new_state if i == identifier else ost[i]))))

    def post_master_seen_running(self):
        return master_seen_running(self) and valid_sm(self)


# ------------------------------------------------------------------------------------------ next() of the state classes
def master_checked(s):
    """what check_master() establishes (contract CheckMaster)"""
    ism = ISM(s)
    return (forall(str, lambda i: implies(i in ism and sees_running(s, i), ism[i].master_identifier != ''))
            and forall(str, str, lambda i, j: implies(i in ism and j in ism and sees_running(s, i) and sees_running(s, j),
                                                      ism[i].master_identifier == ism[j].master_identifier)))


def master_shared(s):
    """the Master is not lost: the local instance knows one and every instance it sees RUNNING declares the same one
    (equivalent to master_checked when the local instance sees itself RUNNING; one quantifier less)"""
    ism = ISM(s)
    return master(s) != '' and forall(str, lambda i: implies(i in ism and sees_running(s, i),
                                                             ism[i].master_identifier == master(s)))


def next_pre(s):
    return valid_state(s)


def next_shape_kept(s, o):
    """what set_state's loop needs back from next(): wiring, shape validity and the local FSM state untouched (the
    semantic half of the single-writer clause C02.1: next() runs Context and StateModes updates, none of which writes
    the local `state`)"""
    return (wiring_unchanged(s, o) and LOCAL(s) is LOCAL(o) and cur(s) == cur(o) and valid_state(s)
            and s.supvisors.fsm.instance is o.supvisors.fsm.instance)


def ending_final_justified(s):
    """C09 clause 3: 'each live instance's Supervisor receives exactly one restart/shutdown order, only after the Master
    has finished stopping everything (or given up on timeouts)': an ending state proposes FINAL only if it is the Master
    and its Stopper is done, or it is not the Master and the Master is no longer seen in the ending state (FINAL, lost,
    unexpected), or the local / Master instance is lost"""
    stopper = s.supvisors.stopper
    stopping = bool(stopper.planned_jobs) or bool(stopper.current_jobs)      # Commander.in_progress()
    return ((is_master(s) and not stopping)
            or (not is_master(s) and not master_state_is(s, own_state(s)))
            or not sees_running(s, LID(s))
            or not master_shared(s))


def instance_states_step(s, o, frm, to):
    """the local view of the instances only moves from a state of `frm` to a state of `to`; the Master is kept or reset,
    and it is reset when it is no longer seen RUNNING (update_instance_state, verified in c02.py); the local entry of the
    state & modes map is never replaced, replaced entries are those of instances now STOPPED / ISOLATED"""
    st, ost = LOCAL(s).instance_states, LOCAL(o).instance_states
    return (forall(str, lambda i: (i in st) == (i in ost)
                   and implies(i in st, st[i] == ost[i] or (ost[i] in frm and st[i] in to)))
            and forall(str, lambda i: (i in ISM(s)) == (i in ISM(o))
                       and implies(i in ISM(s), ISM(s)[i] is ISM(o)[i]
                                   or (i != LID(s) and was_fresh(ISM(s)[i])
                                       and ISM(s)[i].state == SupvisorsStates.OFF and ISM(s)[i].master_identifier == '')))
            and LOCAL(s) is LOCAL(o)
            and (master(s) == master(o) or master(s) == '')
            and implies(master(s) != '' and master(s) in ost, master(s) in st and (
                st[master(s)] == ost[master(s)] or st[master(s)] == SupvisorsInstanceStates.RUNNING))
            and forall(str, lambda i: implies(i in ISM(s) and ISM(s)[i] is ISM(o)[i] and i != LID(s),
                                              ISM(s)[i].master_identifier == ISM(o)[i].master_identifier)))


@contract('statemachine:_WorkingState._activate_instances', props=['C02', 'C08'])
class WorkingActivateInstances:
    """'Back to ELECTION when a new Supvisors instance is detected' - a self-decision of OPERATION / CONCILIATION, so C08
    clause 1 is stated here (DistributionState overrides it with 'no activation')"""
    raises = ()
    returns = 'Optional[SupvisorsStates]'
    variants = ['OperationState', 'ConciliationState']

    def pre_valid(self):
        return valid_state(self)

    def modifies(self):
        return [but_wiring(self)]

    def post_domain(self, result):
        return result is None or result == SupvisorsStates.ELECTION

    def post_c08_self_decision_in_table(self, result):
        return in_table(self, result)

    def post_step(self, old):
        return instance_states_step(self, old.self, (SupvisorsInstanceStates.CHECKED,),
                                    (SupvisorsInstanceStates.RUNNING,))

    def post_shape(self):
        return valid_state(self)


def consistence_posts_doc():
    """_check_consistence of the states past SYNCHRONIZATION is where a state object decides ON ITS OWN to leave (local
    instance not RUNNING -> OFF, failure strategy -> SYNCHRONIZATION / SHUTTING_DOWN, Master not shared -> ELECTION); the
    value is returned unchanged by next().  The C02 clause 3 and C08 clause 1 obligations on these values are therefore
    stated (and, on the pinned tree, refuted) here, on a small function, and next() uses this contract."""
    return True


@contract('statemachine:_SynchronizedState._check_consistence', props=['C02', 'C08'])
class SynchronizedCheckConsistence:
    """see consistence_posts_doc"""
    raises = ()
    returns = 'Optional[SupvisorsStates]'
    variants = ['ElectionState']

    def pre_valid(self):
        return valid_state(self)

    def modifies(self):
        return [contents(self.sync_alerts), field(LOCAL(self), 'degraded_mode')]

    def post_domain(self, result):
        return (result is None or result == SupvisorsStates.OFF or result == SupvisorsStates.SYNCHRONIZATION
                or result == SupvisorsStates.SHUTTING_DOWN)

    def post_c02_shutting_down(self, result):
        return md_ok_for(self, result, SupvisorsStates.SHUTTING_DOWN)

    def post_c08_self_decision_in_table(self, result):
        return in_table(self, result)

    def post_none_means_consistent(self, result):
        return implies(result is None, sees_running(self, LID(self)))

    def post_alerts(self):
        return all(o in self.sync_alerts for o in SYNC_OPTIONS)


@contract('statemachine:_MasterSlaveState._check_consistence', props=['C02', 'C08'])
class MasterSlaveCheckConsistence:
    """see consistence_posts_doc"""
    raises = ()
    returns = 'Optional[SupvisorsStates]'
    variants = ['DistributionState', 'OperationState', 'ConciliationState']
    inline = ['statemachine:_SynchronizedState._check_consistence']

    def pre_valid(self):
        return valid_state(self)

    def modifies(self):
        return [contents(self.sync_alerts), field(LOCAL(self), 'degraded_mode')]

    def post_domain(self, result):
        return (result is None or result == SupvisorsStates.OFF or result == SupvisorsStates.SYNCHRONIZATION
                or result == SupvisorsStates.SHUTTING_DOWN or result == SupvisorsStates.ELECTION)

    def post_c02_shutting_down(self, result):
        return md_ok_for(self, result, SupvisorsStates.SHUTTING_DOWN)

    def post_c08_self_decision_in_table(self, result):
        return in_table(self, result)

    def post_none_means_consistent(self, result):
        return implies(result is None, sees_running(self, LID(self)) and master_checked(self))

    def post_alerts(self):
        return all(o in self.sync_alerts for o in SYNC_OPTIONS)


@contract('statemachine:_EndingState._check_consistence', props=['C09'])
class EndingCheckConsistence:
    """anchor 'ending states force FINAL' (docstring of the method: 'Force the ending process if the local or Master
    Supvisors instance is lost') - and, C09 clause 3, ONLY then: 'each live instance's Supervisor receives exactly one
    restart/shutdown order, only after the Master has finished stopping everything (or given up on timeouts)'"""
    raises = ()
    returns = 'Optional[SupvisorsStates]'
    variants = ['RestartingState', 'ShuttingDownState']
    # the refuted clauses of the super() chain must not be assumed here: the real code is executed
    inline = ['statemachine:_MasterSlaveState._check_consistence', 'statemachine:_SynchronizedState._check_consistence']

    def pre_valid(self):
        return valid_state(self)

    def modifies(self):
        return [contents(self.sync_alerts), field(LOCAL(self), 'degraded_mode')]

    def post_domain(self, result):
        return result is None or result == SupvisorsStates.FINAL

    def post_final_only_when_local_or_master_lost(self, result):
        return implies(result == SupvisorsStates.FINAL, not sees_running(self, LID(self)) or not master_shared(self))

    def post_none_means_consistent(self, result):
        return implies(result is None, sees_running(self, LID(self)) and master_checked(self))

    def post_alerts(self):
        return all(o in self.sync_alerts for o in SYNC_OPTIONS)


@contract('statemachine:_MasterSlaveState._slave_next', props=['C02', 'C08'])
class SlaveNext:
    """mechanism 'slaves follow Master state': the last state published by the Master, None when it is not known.  The
    ghost effect 'follow_master' marks the follow path (C08 clause 1 speaks about the other paths)."""
    raises = ()
    effect = 'follow_master'

    def pre_valid(self):
        return valid(self.supvisors)

    def modifies(self):
        return []

    def post_master_state(self, result):
        return ((result is None) == (master(self) not in ISM(self))
                and implies(result is not None, ISM(self)[master(self)].state == result))


@contract('statemachine:_WorkingState._master_next', props=['C02', 'C06'])
class WorkingMasterNext:
    """C06 'When an instance is lost, the Master - and only the Master - applies to each managed process that was running
    only there its running_failure_strategy' (mechanism 'Master-only repair'): the Master registers ONE failure job per
    lost process (loop0_iter: the iteration of a lost process emits exactly add_default_job(that process); a for-loop
    over the set visits each lost process once) and then triggers the handler, in the evaluation that detected the loss;
    without lost process nothing is emitted.  No state decision; the view is not touched.
    The ghost effect 'working_master_next' tells the overrides' contracts that this step was run (super() call)."""
    raises = ()
    effect = 'working_master_next'
    variants = ['DistributionState', 'OperationState', 'ConciliationState']
    loop0_effects = ('add_default_job',)

    def pre_valid(self):
        return next_pre(self)

    def modifies(self):
        return [but_view(self)]

    def post_no_decision(self, result):
        return result is None

    def post_view(self, old):
        return view_kept(self, old.self)

    def post_effect_repairs_triggered(self, old):
        return count_effects('trigger_jobs') == (1 if len(old.self.lost_processes) > 0 else 0)

    def post_effect_nothing_without_loss(self, old):
        return implies(len(old.self.lost_processes) == 0, no_effect())

    def loop0_inv(self, seen, loop_old):
        return view_kept(self, loop_old.self) and next_pre(self)

    def loop0_modifies(self):
        return [but_view(self)]

    def loop0_iter_one_failure_job_per_lost_process(self, process, loop_old):
        return (((effect_at('add_default_job', 0)[0] is process) if count_effects('add_default_job') == 1 else False)
                and process in loop_old.self.lost_processes and no_effect('trigger_jobs'))


def master_next_doc():
    """C06 'When an instance is lost, the Master ... applies to each managed process that was running only there its
    running_failure_strategy', 'for all instants at which an instance is lost (including during start/stop sequences and
    conciliation)': in EVERY working state (DISTRIBUTION, OPERATION, CONCILIATION) the Master's _master_next runs the
    repair step of _WorkingState._master_next (contract WorkingMasterNext: one failure job per lost process), exactly
    once - an override that does not call super()._master_next() drops the lost processes for good (the next
    evaluation's invalidate_failed() returns a new, empty report)."""
    return True


@contract('statemachine:DistributionState._master_next', props=['C06'])
class DistributionMasterNext:
    """see master_next_doc"""
    raises = ()

    def pre_valid(self):
        return next_pre(self)

    def modifies(self):
        return [but_view(self)]

    def post_effect_lost_processes_repaired(self):
        return count_effects('working_master_next') == 1

    def post_domain(self, result):
        return result == SupvisorsStates.DISTRIBUTION or result == SupvisorsStates.OPERATION

    def post_view(self, old):
        return view_kept(self, old.self)


@contract('statemachine:OperationState._master_next', props=['C06'])
class OperationMasterNext:
    """see master_next_doc"""
    raises = ()

    def pre_valid(self):
        return next_pre(self)

    def modifies(self):
        return [but_view(self)]

    def post_effect_lost_processes_repaired(self):
        return count_effects('working_master_next') == 1

    def post_domain(self, result):
        return result == SupvisorsStates.OPERATION or result == SupvisorsStates.CONCILIATION

    def post_view(self, old):
        return view_kept(self, old.self)


@contract('statemachine:ConciliationState._master_next', props=['C06'])
class ConciliationMasterNext:
    """see master_next_doc"""
    raises = ()

    def pre_valid(self):
        return next_pre(self)

    def modifies(self):
        return [but_view(self)]

    def post_effect_lost_processes_repaired(self):
        return count_effects('working_master_next') == 1

    def post_domain(self, result):
        return result == SupvisorsStates.CONCILIATION or result == SupvisorsStates.OPERATION

    def post_view(self, old):
        return view_kept(self, old.self)


# ------------------------------------------------------------------------------------------ _common_next (C10 / C09)
def jobs_told(s, o):
    """exactly two notifications: the Starter, then the Stopper, are given the report of this evaluation (the lost
    instances and the processes lost with them)"""
    sv = s.supvisors
    a = effect_at('on_instances_invalidation', 0)
    b = effect_at('on_instances_invalidation', 1)
    return ((a[0] is sv.starter and a[1] is o.lost_instances and a[2] is o.lost_processes
             and b[0] is sv.stopper and b[1] is o.lost_instances and b[2] is o.lost_processes)
            if count_effects('on_instances_invalidation') == 2 else False)


def jobs_invalidated_iff_instances_lost(s, o):
    """C10 'or the target instance is lost, the job is abandoned' (mechanism 'jobs dropped with their instance'), C09
    '(or given up on timeouts)' / 'loss of a non-Master instance during the ending phase': the Starter and the Stopper
    are told whenever the report holds a lost INSTANCE - also when no process is reported lost with it (an instance lost
    while only STOPPING processes remain there: the pending stop commands must still be dropped) - and only then"""
    lost = len(o.lost_instances) > 0
    return implies(lost, jobs_told(s, o)) and implies(not lost, no_effect('on_instances_invalidation'))


@contract('statemachine:_MasterSlaveState._common_next', props=['C10', 'C09'])
class MasterSlaveCommonNext:
    """see jobs_invalidated_iff_instances_lost (ending states)"""
    raises = ()
    effect = 'common_next'
    variants = ['RestartingState', 'ShuttingDownState']

    def pre_valid(self):
        return next_pre(self)

    def modifies(self):
        return [but_view(self)]

    def post_view(self, old):
        return view_kept(self, old.self)

    def post_report_kept(self, old):
        return self.lost_instances is old.self.lost_instances and self.lost_processes is old.self.lost_processes

    def post_effect_jobs_invalidated_iff_instances_lost(self, old):
        return jobs_invalidated_iff_instances_lost(self, old.self)


@contract('statemachine:_WorkingState._common_next', props=['C10', 'C09'])
class WorkingCommonNext:
    """see jobs_invalidated_iff_instances_lost (working states)"""
    raises = ()
    effect = 'common_next'
    variants = ['DistributionState', 'OperationState', 'ConciliationState']

    def pre_valid(self):
        return next_pre(self)

    def modifies(self):
        return [but_view(self)]

    def post_view(self, old):
        return view_kept(self, old.self)

    def post_report_kept(self, old):
        return self.lost_instances is old.self.lost_instances and self.lost_processes is old.self.lost_processes

    def post_effect_jobs_invalidated_iff_instances_lost(self, old):
        return jobs_invalidated_iff_instances_lost(self, old.self)


def view_kept(s, o):
    """the state & modes view next() decides on is the same in both heaps"""
    return (forall(str, lambda i: (i in ISM(s)) == (i in ISM(o)) and implies(i in ISM(s), ISM(s)[i] is ISM(o)[i]))
            and forall(str, lambda i: (i in LOCAL(s).instance_states) == (i in LOCAL(o).instance_states)
                       and implies(i in LOCAL(s).instance_states,
                                   LOCAL(s).instance_states[i] == LOCAL(o).instance_states[i]))
            and implies(valid(o.supvisors) and coupled(o.supvisors), valid(s.supvisors) and coupled(s.supvisors)))


@contract('statemachine:_SupvisorsBaseState.next', props=['C02', 'C08'])
class BaseNext:
    """OffState / FinalState (and the contract every override refines: it is what FiniteStateMachine.next and set_state
    know of `self.instance.next()`)."""
    raises = ()
    variants = ['OffState', 'FinalState']

    def pre_valid(self):
        return next_pre(self)

    def pre_master_seen_running(self):
        return master_seen_running(self)

    def modifies(self):
        return [everything_but(*PROT)]

    def post_c02_distribution(self, result):
        return md_ok_for(self, result, SupvisorsStates.DISTRIBUTION)

    def post_c02_operation(self, result):
        return md_ok_for(self, result, SupvisorsStates.OPERATION)

    def post_c02_conciliation(self, result):
        return md_ok_for(self, result, SupvisorsStates.CONCILIATION)

    def post_c02_restarting(self, result):
        return md_ok_for(self, result, SupvisorsStates.RESTARTING)

    def post_c02_shutting_down(self, result):
        return md_ok_for(self, result, SupvisorsStates.SHUTTING_DOWN)

    def post_c08_self_decision_in_table(self, result):
        """C08 clause 1: 'a decision that the table refuses forever'"""
        return implies(no_effect('follow_master'), in_table(self, result))

    def post_shape(self, old):
        return next_shape_kept(self, old.self)

    def post_master_seen_running(self):
        return master_seen_running(self)


@contract('statemachine:SynchronizationState.next', props=['C02', 'C08'])
class SynchronizationNext:
    """AttributeError: `self.context.master_instance.running` in _check_end_sync_user when the Master accepted from a
    peer's declaration is unknown to the local Context - exception-freedom is C16's scope, not claimed here"""
    raises = ('AttributeError',)
    inline = ['statemachine:_SupvisorsBaseState.next']

    def pre_valid(self):
        return next_pre(self)

    def pre_master_seen_running(self):
        return master_seen_running(self)

    def modifies(self):
        return [everything_but(*PROT)]

    def post_c02_master_driven(self, result):
        return md_ok(self, result)

    def post_c08_self_decision_in_table(self, result):
        return implies(no_effect('follow_master'), in_table(self, result))

    def post_shape(self, old):
        return next_shape_kept(self, old.self)


@contract('statemachine:ElectionState.next', props=['C02', 'C08', 'C01'])
class ElectionNext:
    raises = ()
    inline = ['statemachine:_SupvisorsBaseState.next']

    def pre_valid(self):
        return next_pre(self)

    def pre_master_seen_running(self):
        return master_seen_running(self)

    def modifies(self):
        return [everything_but(*PROT)]

    def post_c02_distribution(self, result):
        return md_ok_for(self, result, SupvisorsStates.DISTRIBUTION)

    def post_c02_operation(self, result):
        return md_ok_for(self, result, SupvisorsStates.OPERATION)

    def post_c02_conciliation(self, result):
        return md_ok_for(self, result, SupvisorsStates.CONCILIATION)

    def post_c02_restarting(self, result):
        return md_ok_for(self, result, SupvisorsStates.RESTARTING)

    def post_c02_shutting_down(self, result):
        return md_ok_for(self, result, SupvisorsStates.SHUTTING_DOWN)

    def post_c08_self_decision_in_table(self, result):
        return implies(no_effect('follow_master'), in_table(self, result))

    def post_shape(self, old):
        return next_shape_kept(self, old.self)

    def post_effect_election_rule_runs_whenever_stable(self, result):
        """C01 'A running Master that is the only one recognised is kept when instances join or leave; otherwise the
        documented rule ... picks among the Masters still recognised, or among all running instances when there is none'
        (mechanisms 'stability gate before election', 'priority to already declared Master'): as long as the instance
        stays in ELECTION, select_master runs on EVERY evaluation in which the context is stable - not only when no
        Master is known locally: after a healed split-brain several Masters are recognised and the rule must pick one -
        and never while the context is unstable, nor in the evaluation that leaves ELECTION (the shared Master is kept)"""
        stable = len(self.supvisors.state_modes.stable_identifiers) > 0
        return count_effects('select_master') == (1 if stable and result == SupvisorsStates.ELECTION else 0)


@contract('statemachine:_MasterSlaveState.next', props=['C02', 'C08', 'C09', 'C10'])
class MasterSlaveNext:
    raises = ()
    # the _master_next overrides have their own (C06) contracts; here their real code is executed, as before
    inline = ['statemachine:_SupvisorsBaseState.next', 'statemachine:DistributionState._master_next',
              'statemachine:OperationState._master_next', 'statemachine:ConciliationState._master_next']
    variants = ['DistributionState', 'OperationState', 'ConciliationState', 'RestartingState', 'ShuttingDownState']

    def pre_valid(self):
        return next_pre(self)

    def pre_master_seen_running(self):
        return master_seen_running(self)

    def modifies(self):
        return [everything_but(*PROT)]

    def post_c02_distribution(self, result):
        return md_ok_for(self, result, SupvisorsStates.DISTRIBUTION)

    def post_c02_operation(self, result):
        return md_ok_for(self, result, SupvisorsStates.OPERATION)

    def post_c02_conciliation(self, result):
        return md_ok_for(self, result, SupvisorsStates.CONCILIATION)

    def post_c02_restarting(self, result):
        return md_ok_for(self, result, SupvisorsStates.RESTARTING)

    def post_c02_shutting_down(self, result):
        return md_ok_for(self, result, SupvisorsStates.SHUTTING_DOWN)

    def post_c08_self_decision_in_table(self, result):
        return implies(no_effect('follow_master'), in_table(self, result))

    def post_c09_final_only_when_done(self, result):
        return implies((isinstance(self, RestartingState) or isinstance(self, ShuttingDownState))
                       and result == SupvisorsStates.FINAL, ending_final_justified(self))

    def post_c09_ending_states_lead_only_to_final(self, result):
        """'the exits RESTARTING / SHUTTING_DOWN leading only to FINAL'"""
        return implies(isinstance(self, RestartingState) or isinstance(self, ShuttingDownState),
                       result is not None and (result == own_state(self) or result == SupvisorsStates.FINAL))

    def post_effect_lost_instances_reach_starter_and_stopper(self, result):
        """C10 'or the target instance is lost, the job is abandoned', C09 'loss of a non-Master instance during the ending
        phase': EVERY evaluation, Master or not, runs the common step exactly once (contracts MasterSlaveCommonNext /
        WorkingCommonNext: the Starter and the Stopper are told iff the report of this evaluation holds a lost
        instance) - unless the state object decides ON ITS OWN to leave the state before it (new instance, local instance
        or Master lost, failure strategy): then nothing was followed nor driven.  (The entry actions of SYNCHRONIZATION /
        ELECTION / RESTARTING / SHUTTING_DOWN abort all jobs: C08 clause 3, C09 clause 2.)"""
        return (count_effects('common_next') == 1
                or (no_effect('common_next', 'follow_master', 'working_master_next') and result is not None
                    and result != own_state(self)))


# ------------------------------------------------------------------------------------------ exit() of the state classes
def exit_pre(s):
    return valid(s.supvisors) and concrete(s)


@contract('statemachine:_SupvisorsBaseState.exit', props=['C02', 'C09'])
class BaseExit:
    """what set_state knows of `self.instance.exit()` (between the table check and the write): nothing of the heap
    changes, so the checked pair (old, new) is the written pair.  Every override below has the same frame."""
    raises = ()
    variants = ['OffState', 'ElectionState', 'FinalState']

    def pre_valid(self):
        return exit_pre(self)

    def modifies(self):
        return []

    def post_no_order(self):
        return no_effect('send_restart', 'send_shutdown')


@contract('statemachine:SynchronizationState.exit', props=['C02'])
class SynchronizationExit:
    raises = ()

    def pre_valid(self):
        return exit_pre(self)

    def modifies(self):
        return []

    def post_no_order(self):
        return no_effect('send_restart', 'send_shutdown')


@contract('statemachine:_MasterSlaveState.exit', props=['C02'])
class MasterSlaveExit:
    raises = ()
    variants = ['DistributionState', 'OperationState', 'ConciliationState']

    def pre_valid(self):
        return exit_pre(self)

    def modifies(self):
        return []

    def post_no_order(self):
        return no_effect('send_restart', 'send_shutdown')


@contract('statemachine:RestartingState.exit', props=['C02', 'C09'])
class RestartingExit:
    """C09 clause 3: 'each live instance's Supervisor receives exactly one restart/shutdown order': exit() sends exactly
    one restart order, to the local instance (RESTARTING is left at most once: its only successor is FINAL, which is
    terminal - C02)"""
    raises = ()

    def pre_valid(self):
        return exit_pre(self)

    def modifies(self):
        return []

    def post_one_order_to_self(self):
        return once('send_restart', LID(self)) and no_effect('send_shutdown')


@contract('statemachine:ShuttingDownState.exit', props=['C02', 'C09'])
class ShuttingDownExit:
    raises = ()

    def pre_valid(self):
        return exit_pre(self)

    def modifies(self):
        return []

    def post_one_order_to_self(self):
        return once('send_shutdown', LID(self)) and no_effect('send_restart')


# ------------------------------------------------------------------------------------------ enter() of the state classes
def enter_pre(s):
    return valid(s.supvisors) and coupled(s.supvisors) and concrete(s) and s.supvisors.fsm.instance is s


def jobs_aborted(s):
    """C08 clause 3: 'with no start or stop job pending' when coming back to SYNCHRONIZATION / ELECTION"""
    sv = s.supvisors
    return (len(sv.starter.planned_jobs) == 0 and len(sv.starter.current_jobs) == 0
            and len(sv.stopper.planned_jobs) == 0 and len(sv.stopper.current_jobs) == 0
            and len(sv.failure_handler.stop_application_jobs) == 0
            and len(sv.failure_handler.restart_application_jobs) == 0
            and len(sv.failure_handler.restart_process_jobs) == 0
            and len(sv.failure_handler.continue_process_jobs) == 0)


@contract('statemachine:_SupvisorsBaseState.enter', props=['C02'])
class BaseEnter:
    raises = ()
    variants = ['FinalState']

    def pre_valid(self):
        return enter_pre(self)

    def modifies(self):
        return []


@contract('statemachine:OffState.enter', props=['C02'])
class OffEnter:
    raises = ()

    def pre_valid(self):
        return enter_pre(self)

    def modifies(self):
        return [field(self.supvisors.context, 'start_date')]


@contract('statemachine:SynchronizationState.enter', props=['C02', 'C08'])
class SynchronizationEnter:
    """C08 clause 3 (mechanism 'abort of jobs when leaving working states')"""
    raises = ()

    def pre_valid(self):
        return enter_pre(self)

    def modifies(self):
        return [but_view(self)]

    def post_view(self, old):
        return view_kept(self, old.self)

    def post_jobs_aborted(self):
        return jobs_aborted(self)


@contract('statemachine:ElectionState.enter', props=['C02', 'C08'])
class ElectionEnter:
    """C08 clause 3 (mechanism 'abort of jobs when leaving working states')"""
    raises = ()

    def pre_valid(self):
        return enter_pre(self)

    def modifies(self):
        return [but_view(self)]

    def post_view(self, old):
        return view_kept(self, old.self)

    def post_jobs_aborted(self):
        return jobs_aborted(self)


@contract('statemachine:_MasterSlaveState.enter', props=['C02', 'C09'])
class MasterSlaveEnter:
    """Master / slave split of the entry actions; C09 clause 2: an ending state aborts the jobs, and the Master then asks
    the Stopper to stop all applications"""
    raises = ()
    variants = ['DistributionState', 'OperationState', 'ConciliationState', 'RestartingState', 'ShuttingDownState']

    def pre_valid(self):
        return enter_pre(self)

    def modifies(self):
        return [but_view(self)]

    def post_view(self, old):
        return view_kept(self, old.self)

    def post_only_the_master_acts(self):
        return implies(not is_master(self), no_effect('start_applications', 'stop_applications', 'conciliate_conflicts'))

    def post_ending_master_stops_everything(self):
        ending = isinstance(self, RestartingState) or isinstance(self, ShuttingDownState)
        return (implies(ending and is_master(self), count_effects('stop_applications') == 1)
                and implies(not ending, no_effect('stop_applications')))


# ------------------------------------------------------------------------------------------ FiniteStateMachine
STATE_CLASSES = ((SupvisorsStates.OFF, OffState), (SupvisorsStates.SYNCHRONIZATION, SynchronizationState),
                 (SupvisorsStates.ELECTION, ElectionState), (SupvisorsStates.DISTRIBUTION, DistributionState),
                 (SupvisorsStates.OPERATION, OperationState), (SupvisorsStates.CONCILIATION, ConciliationState),
                 (SupvisorsStates.RESTARTING, RestartingState), (SupvisorsStates.SHUTTING_DOWN, ShuttingDownState),
                 (SupvisorsStates.FINAL, FinalState))


def fsm_inv(f):
    """object invariant of the FSM: wiring, and `instance` is the state object of the current state (class read from
    _StateInstances; established by __init__ with OffState / OFF, kept by set_state)"""
    inst = f.instance
    return (f.supvisors.fsm is f and valid(f.supvisors) and coupled(f.supvisors) and inst.supvisors is f.supvisors
            and concrete(inst) and own_state(inst) == cur(f))


def proposal_ok(f, v):
    """C02 clause 3 for a proposed next state v, in the FSM's terms"""
    return implies(v is not None and v in MD and v != cur(f),
                   master(f) != '' and sees_running(f, master(f)) and (is_master(f) or master_state_is(f, v)))


@contract('statemachine:FiniteStateMachine.set_state', props=['C02', 'C08'])
class SetState:
    """'The Supvisors state ... only changes along the documented graph' (every write goes through the `state` setter,
    whose precondition is the statement: obligations call-pre:pre_along_the_table / pre_master_driven at line 978) and
    mechanism 'multi-step transitions in one evaluation'."""
    raises = ()
    effect = 'set_state'

    def pre_inv(self):
        return fsm_inv(self) and all(o in self.instance.sync_alerts for o in SYNC_OPTIONS)

    def pre_master_seen_running(self):
        return master_seen_running(self)

    def pre_proposal(self, next_state):
        return proposal_ok(self, next_state)

    def modifies(self):
        return [everything_but(*WIRING)]

    def loop0_modifies(self):
        return [everything_but(*WIRING)]

    def post_inv(self):
        return fsm_inv(self)

    def post_final_is_terminal(self, old):
        """'FINAL, which is terminal'"""
        return implies(cur(old.self) == SupvisorsStates.FINAL, cur(self) == SupvisorsStates.FINAL)

    def loop0_inv(self, next_state, loop_old):
        return (fsm_inv(self) and all(o in self.instance.sync_alerts for o in SYNC_OPTIONS)
                and master_seen_running(self) and proposal_ok(self, next_state)
                and self.supvisors is loop_old.self.supvisors and LOCAL(self) is LOCAL(loop_old.self)
                and LID(self) == LID(loop_old.self)
                and implies(cur(loop_old.self) == SupvisorsStates.FINAL, cur(self) == SupvisorsStates.FINAL))


def once(name, arg):
    """exactly one effect `name` in this call, with first argument arg"""
    return (effect_at(name, 0)[0] == arg) if count_effects(name) == 1 else False


def fsm_pre(f):
    return fsm_inv(f) and all(o in f.instance.sync_alerts for o in SYNC_OPTIONS)


@contract('statemachine:FiniteStateMachine.next', props=['C02', 'C08', 'C10', 'C06'])
class FsmNext:
    """the periodic / event-driven evaluation: whatever `instance.next()` proposes goes through set_state (C02), and it
    is always proposed (C08 clause 2: re-evaluation reaches next())"""
    raises = ()
    effect = 'fsm_next'

    def pre_inv(self):
        return fsm_pre(self)

    def pre_master_seen_running(self):
        return master_seen_running(self)

    def modifies(self):
        return [everything_but(*WIRING)]

    def post_inv(self):
        return fsm_inv(self)

    def post_evaluated_once(self):
        return count_effects('set_state') == 1

    def post_effect_periodic_timeout_check(self):
        """C10 'if the expected STARTING/STOPPING acknowledgement is not seen within the tick margin ... the job is
        abandoned' (mechanism 'periodic timeout check': Commander.check <- FiniteStateMachine.next): EVERY evaluation
        checks the jobs of the Starter and of the Stopper, once each"""
        sv = self.supvisors
        return ((effect_at('commander_check', 0)[0] is sv.starter and effect_at('commander_check', 1)[0] is sv.stopper)
                if count_effects('commander_check') == 2 else False)

    def post_effect_deferred_repairs_triggered(self):
        """C06 'a process that already has a start or stop job planned is left to that job' (mechanism 'deferral while
        the application has jobs'): the repairs the failure handler deferred are applied by this periodic trigger -
        exactly one trigger_jobs per evaluation (the state object's next() is seen through its contract here)"""
        return count_effects('trigger_jobs') == 1

    def post_effect_periodic_work_first(self):
        """... on every evaluation, whatever the state object then decides: the periodic work precedes the evaluation
        of the state (nothing of it can be skipped by an early return of next() / a refused transition)"""
        log = effects()
        return (log[0][0] == 'commander_check' and log[1][0] == 'commander_check' and log[2][0] == 'trigger_jobs'
                and log[3][0] == 'set_state') if len(log) == 4 else False


@contract('statemachine:FiniteStateMachine.on_restart', props=['C02', 'C09'])
class OnRestart:
    """(ghost effect 'fsm_on_restart' for the callers inside the FSM)  C09 clause 2: 'On supvisors.restart ..., issued on any instance, the order reaches the Master': the Master enters
    RESTARTING through set_state (C02 clause 3 is the call-pre of set_state); a slave re-routes exactly one request to its
    Master; without Master nothing happens (RuntimeError, see C17)"""
    raises = ('RuntimeError',)
    effect = 'fsm_on_restart'

    def pre_inv(self):
        return fsm_pre(self)

    def pre_master_seen_running(self):
        return master_seen_running(self)

    def modifies(self):
        return [everything_but(*WIRING)]

    def post_master_transitions(self, old):
        return implies(is_master(old.self), once('set_state', SupvisorsStates.RESTARTING)
                       and no_effect('send_restart_all', 'send_shutdown_all'))

    def post_slave_reroutes(self, old):
        return implies(not is_master(old.self), master(old.self) != '' and once('send_restart_all', master(old.self))
                       and no_effect('set_state', 'send_shutdown_all'))

    def exc_RuntimeError_no_master(self, old):
        return not is_master(old.self) and master(old.self) == '' and no_effect()


@contract('statemachine:FiniteStateMachine.on_shutdown', props=['C02', 'C09'])
class OnShutdown:
    raises = ('ValueError',)
    effect = 'fsm_on_shutdown'

    def pre_inv(self):
        return fsm_pre(self)

    def pre_master_seen_running(self):
        return master_seen_running(self)

    def modifies(self):
        return [everything_but(*WIRING)]

    def post_master_transitions(self, old):
        return implies(is_master(old.self), once('set_state', SupvisorsStates.SHUTTING_DOWN)
                       and no_effect('send_restart_all', 'send_shutdown_all'))

    def post_slave_reroutes(self, old):
        return implies(not is_master(old.self), master(old.self) != '' and once('send_shutdown_all', master(old.self))
                       and no_effect('set_state', 'send_restart_all'))

    def exc_ValueError_no_master(self, old):
        return not is_master(old.self) and master(old.self) == '' and no_effect()


# ------------------------------------------------------------------------------------------ process events (C06 / C01)
def crashed(p):
    """ProcessStatus.crashed() without identifier: 'has crashed or has exited unexpectedly'"""
    return p._state == ProcessStates.FATAL or (p._state == ProcessStates.EXITED and not p.expected_exit)


AUTOMATIC = ('add_default_job', 'trigger_jobs', 'fsm_on_restart', 'fsm_on_shutdown', 'set_state', 'send_restart_all',
             'send_shutdown_all', 'start_applications', 'stop_applications', 'conciliate_conflicts')


@contract('statemachine:FiniteStateMachine.on_process_state_event', props=['C06', 'C01'])
class OnProcessStateEvent:
    """C06 'the Master - and only the Master - applies ... its running_failure_strategy ...; on a process crash the
    application-level strategies and SHUTDOWN / RESTART are applied the same way'; C01 'No instance starts, stops or
    conciliates anything automatically unless it is that Master'; comment of the code (anchor 'Master-only repair'): 'to
    avoid infinite application restart, exclude the case where process state is forced'.
    The event's process is the one handed to the Starter and the Stopper (argument of the 'commander_on_event'
    effects); its attributes are read where the code read them: just before the first automatic action
    (effect_pre), or in the final state when no action was taken (nothing ran after the reads)."""
    raises = ()

    def pre_inv(self, status):
        return fsm_pre(self)

    def pre_master_seen_running(self):
        return master_seen_running(self)

    def modifies(self, status, event):
        return [everything_but(*WIRING)]

    def post_effect_jobs_see_the_event(self, status):
        """the Starter, then the Stopper, are given the event of a known process (C10: acknowledgements end the jobs)"""
        sv = self.supvisors
        a = effect_at('commander_on_event', 0)
        b = effect_at('commander_on_event', 1)
        return (count_effects('commander_on_event') == 0 and no_effect(*AUTOMATIC)) or (
            (a[0] is sv.starter and b[0] is sv.stopper and a[1] is b[1]) if count_effects('commander_on_event') == 2 else False)

    def post_effect_only_the_master_acts(self, old):
        return implies(not is_master(old.self), no_effect(*AUTOMATIC))

    def post_effect_at_most_one_action(self):
        return (count_effects('fsm_on_restart') + count_effects('fsm_on_shutdown') + count_effects('add_default_job') <= 1
                and count_effects('trigger_jobs') == count_effects('add_default_job')
                and no_effect('start_applications', 'stop_applications', 'conciliate_conflicts'))

    def post_effect_restart_only_on_crash_with_restart_strategy(self):
        """'on a process crash ... SHUTDOWN / RESTART are applied the same way' - and only then"""
        e = effect_at('commander_on_event', 0)[1] if count_effects('commander_on_event') == 2 else None
        acted = count_effects('fsm_on_restart') == 1 and count_effects('commander_on_event') == 2
        p = at(effect_pre('fsm_on_restart', 0), e) if acted else None
        return ((crashed(p) and p.rules.running_failure_strategy == RunningFailureStrategies.RESTART)
                if acted else count_effects('fsm_on_restart') == 0)

    def post_effect_shutdown_only_on_crash_with_shutdown_strategy(self):
        e = effect_at('commander_on_event', 0)[1] if count_effects('commander_on_event') == 2 else None
        acted = count_effects('fsm_on_shutdown') == 1 and count_effects('commander_on_event') == 2
        p = at(effect_pre('fsm_on_shutdown', 0), e) if acted else None
        return ((crashed(p) and p.rules.running_failure_strategy == RunningFailureStrategies.SHUTDOWN)
                if acted else count_effects('fsm_on_shutdown') == 0)

    def post_effect_failure_job_only_for_unforced_crash(self):
        """'... STOP_APPLICATION stops the whole application, RESTART_APPLICATION stops then restarts it' on a crash - and
        a forced state is not retried: a failure job is registered only for the event's process, crashed, with an
        application-level strategy and no forced state (read just before the registration)"""
        e = effect_at('commander_on_event', 0)[1] if count_effects('commander_on_event') == 2 else None
        acted = count_effects('add_default_job') == 1 and count_effects('commander_on_event') == 2
        j = effect_at('add_default_job', 0)[0] if acted else None
        p = at(effect_pre('add_default_job', 0), e) if acted else None
        strategy = p.rules.running_failure_strategy if acted else None
        return ((j is e and crashed(p) and p.forced_state is None
                 and (strategy == RunningFailureStrategies.STOP_APPLICATION
                      or strategy == RunningFailureStrategies.RESTART_APPLICATION))
                if acted else count_effects('add_default_job') == 0)

    def post_effect_master_applies_the_strategy_of_a_crash(self, old):
        """the converse: when the Master took NO action, the event's process (final state = state at the decision: nothing
        ran after it) had not crashed, or its strategy is CONTINUE / RESTART_PROCESS (left to Supervisor's autorestart),
        or it is an application-level strategy on a forced state"""
        p = effect_at('commander_on_event', 0)[1] if count_effects('commander_on_event') == 2 else None
        strategy = p.rules.running_failure_strategy if count_effects('commander_on_event') == 2 else None
        idle = count_effects('fsm_on_restart') + count_effects('fsm_on_shutdown') + count_effects('add_default_job') == 0
        return (implies(is_master(old.self) and crashed(p),
                        strategy != RunningFailureStrategies.RESTART and strategy != RunningFailureStrategies.SHUTDOWN
                        and implies(strategy == RunningFailureStrategies.STOP_APPLICATION
                                    or strategy == RunningFailureStrategies.RESTART_APPLICATION,
                                    p.forced_state is not None))
                if idle and count_effects('commander_on_event') == 2 else True)
