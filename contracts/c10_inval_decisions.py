"""Decision facets of commander:ApplicationJobs.on_instances_invalidation (C10 / C03 / C08 / C16).

The full contract (contracts/c10.py JobsOnInstancesInvalidation, group commander) proves the function on the unchanged
tree, but under its quantified invariants a *broken* variant of the function mostly ends undecided (no counter-model
small enough for the finite search): ./check would exit 2, not report a violation.  The clauses that matter are
therefore decided here once more, alone, as per-iteration clauses of loop 0 under a small invariant (the in-flight
list stays duplicate-free), where counter-models are found in seconds:

* C10 / C08 'if ... the target instance is lost, the job is abandoned': the command examined by an iteration is no
  longer in flight at the end of the iteration when its target is an invalidated identifier - whatever the state of its
  process (a start request may be lost with the instance before the process left STOPPED: then the process is not in
  failed_processes);
* C03 'After a required process fails to start, starting_failure_strategy is honoured: ABORT and STOP request nothing
  further': dropping the command of a required ABORT / STOP process wipes the plan of a start job - again whatever
  failed_processes holds;
* C16: nothing but the ValueError of list.remove (excluded by the full contract, not provable under this small
  invariant) may escape: in particular no KeyError from failed_processes."""
from pyvc.spec import *
from contracts.c10 import wipes_plan

GROUP = 'commander_dec'   # on its own: no call site uses these facets


@contract('commander:ApplicationJobs.on_instances_invalidation', props=['C10', 'C03', 'C08', 'C16'])
class LostTargetIsDroppedAsAStartingFailure:
    variants = ['ApplicationStartJobs', 'ApplicationStopJobs']
    raises = ('ValueError',)

    def pre_shape(self, invalidated_identifiers):
        return (duplicate_free(self.current_jobs) and invalidated_identifiers is not self.current_jobs
                and forall(int, lambda s: implies(s in self.planned_jobs, self.planned_jobs[s] is not self.current_jobs)))

    def loop0_inv(self, k):
        return k >= 0 and duplicate_free(self.current_jobs)

    def loop0_iter_lost_target_leaves(self, k, command, invalidated_identifiers):
        return implies(command.identifier in invalidated_identifiers, command not in self.current_jobs)

    def loop0_iter_required_failure_wipes_the_plan(self, k, command, invalidated_identifiers):
        return implies(isinstance(self, ApplicationStartJobs) and command.identifier in invalidated_identifiers
                       and wipes_plan(command.process), len(self.planned_jobs) == 0)

    def loop1_inv(self, k):
        return k >= 0
