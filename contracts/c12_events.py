"""C12 / C13 - acceptance guards of the Context handlers of process events (DESIGN C12.2, C13.6): CONTROL-FLOW facet.

What is decided here: from which senders and for which processes an event is taken into account, i.e. under which guard
the handler calls out, with which arguments, and that it changes / publishes nothing otherwise.  The call-outs of the
accepted path are abstracted FOR THE CALL SITES OF THIS FILE ONLY (a contract of the caller's file takes precedence,
ENGINE.md 8) by EFFECT-ONLY contracts: ProcessStatus.update_info / force_state (C11), ApplicationStatus.update (C15),
SupvisorsInstanceStatus.update_process.  A call-out is represented by its entry in the ghost effect log (receiver and
arguments); its heap writes are NOT modelled here (`modifies` is empty as an abstraction, not as a claim).  Hence in
this file `unchanged()` reads "the handler itself writes nothing" and `no_effect()` reads "no call-out, no publication";
the two together are "nothing changes".  This is sound for the clauses below because none of them reads, after a
call-out, a location these callees write (their real frames: contracts/c11.py, contracts/c15.py): the result and the
effect arguments are fixed before the call-outs, and the control flow after them only depends on the callee's result
(left arbitrary) and on Supvisors.external_publisher.  What the call-outs do to the ProcessStatus, their
exception-freedom and the preconditions they need are the subject of the second facet (contracts/c12_report.py
OnProcessStateEventReport), proved at these very call sites with the real C11 / C15 contracts.
Reason for the split: with the quantified invariant I11 in the context, or with the havoc of a callee frame, every
counter-model search takes minutes, so that a change of the guard would stay undecided (measured: > 400 s); here a
breaking change is refuted within seconds.
"""
from pyvc.spec import *

GROUP = 'process_events'   # own group: the effect-only abstractions below must not be seen by the proofs of any other file

from contracts.c11 import EVENT_KEYS


@contract('process:ProcessStatus.update_info', props=[])
class UpdateInfoCall:
    """call abstraction, logged as effect (receiver, identifier, payload)"""
    assumed = True
    raises = ()
    effect = 'update_info'
    effect_receiver = True

    def modifies(self, identifier):
        return []     # heap writes NOT modelled in this facet: see the module docstring

    def pre_known(self, identifier):
        return identifier in self.info_map


@contract('process:ProcessStatus.force_state', props=[])
class ForceStateCall:
    """call abstraction, logged as effect (receiver, event)"""
    assumed = True
    raises = ()
    effect = 'force_state'
    effect_receiver = True

    def modifies(self):
        return []     # heap writes NOT modelled in this facet: see the module docstring

    def pre_event(self, event):
        return 'identifier' in event and 'now_monotonic' in event and 'state' in event and 'spawnerr' in event


@contract('application:ApplicationStatus.update', props=[])
class ApplicationUpdateCall:
    """call abstraction, logged as effect (receiver)"""
    assumed = True
    raises = ()
    effect = 'application_update'
    effect_receiver = True

    def modifies(self):
        return []     # heap writes NOT modelled in this facet: see the module docstring


@contract('statscollector:StatisticsCollectorProcess.send_pid', props=[])
class CollectorSendPid:
    """pipe to the statistics collector process (namespec, pid): touches nothing of the instance"""
    assumed = True
    raises = ()
    effect = 'send_pid'

    def modifies(self):
        return []


@contract('process:ProcessStatus.serial', props=[])
class ProcessStatusSerial:
    """builds the payload published for one process status (dict literal): reads only"""
    assumed = True
    raises = ()
    returns = 'Payload'

    def modifies(self):
        return []


@contract('application:ApplicationStatus.serial', props=[])
class ApplicationStatusSerial:
    """builds the payload published for one application status (dict literal): reads only"""
    assumed = True
    raises = ()
    returns = 'Payload'

    def modifies(self):
        return []


@contract('instancestatus:SupvisorsInstanceStatus.update_process', props=[])
class InstanceUpdateProcessCall:
    """call abstraction: forwards the pid of the process to the statistics collector (pipe), changes nothing"""
    assumed = True
    raises = ()

    def modifies(self):
        return []


# ------------------------------------------------------------------------------------------ acceptance guards (C12.2)
# statement C12 mechanism 'events accepted from CHECKED/RUNNING peers only'; statement C13: 'process state, removal and
# disability events are only taken into account from peers that passed the handshake (CHECKED or RUNNING)'.
ADMITTED = (SupvisorsInstanceStates.CHECKED, SupvisorsInstanceStates.RUNNING)


def known_process(ctx, event):
    return event['group'] in ctx.applications and event['name'] in ctx.applications[event['group']].processes


def the_process(ctx, event):
    return ctx.applications[event['group']].processes[event['name']]


def accepted(ctx, status, event):
    """a plain (not forced) event about a known process, from an admitted instance that has reported the process"""
    return (status._state in ADMITTED and known_process(ctx, event) and 'forced' not in event
            and status.supvisors_id.identifier in the_process(ctx, event).info_map)


@contract('context:Context.on_process_state_event', props=['C12', 'C13'])
class OnProcessStateEvent:
    """statement C12 (mechanism 'events accepted from CHECKED/RUNNING peers only'); C13: 'process state ... events are
    only taken into account from peers that passed the handshake (CHECKED or RUNNING)'.
    A process event published by an instance is applied IFF the local status of that instance is CHECKED or RUNNING
    (both) and the process is known (with a report of that instance unless the event is a forced one): then it is handed
    to ProcessStatus.update_info of that process under the identifier OF THE SENDER'S STATUS (not the one claimed in the
    payload) and the process is returned; otherwise nothing changes, nothing is published and None is returned."""
    raises = ()

    def pre_valid(self, status, event):
        return status.supvisors is self.supvisors and 'group' in event and 'name' in event

    def pre_event(self, event):
        """payloads built by SupervisorListener.on_process_state (Supervisor event: real process name) and
        SupervisorListener.force_process_state ('forced' added, name of an existing ProcessStatus)"""
        return (event['name'] != '*' and all(k in event for k in EVENT_KEYS) and 'identifier' in event)

    def post_refused_unless_admitted(self, status, result, old):
        return implies(old.status._state not in ADMITTED, unchanged() and result is None)

    def post_effect_refused_unless_admitted(self, status, old):
        return implies(old.status._state not in ADMITTED, no_effect())

    def post_refused_when_unknown(self, status, result, old):
        return implies(not known_process(old.self, old.event)
                       or ('forced' not in old.event
                           and status.supvisors_id.identifier not in the_process(old.self, old.event).info_map),
                       unchanged() and result is None)

    def post_effect_refused_when_unknown(self, status, old):
        return implies(not known_process(old.self, old.event)
                       or ('forced' not in old.event
                           and status.supvisors_id.identifier not in the_process(old.self, old.event).info_map),
                       no_effect())

    def post_result_when_admitted(self, status, result, old):
        return implies(accepted(old.self, old.status, old.event), result is the_process(old.self, old.event))

    def post_effect_applied_when_admitted(self, status, event, old):
        """the event goes to update_info of the process it names, as a report of the sender; the instance and the
        application are refreshed; no forced state is applied"""
        ok = accepted(old.self, old.status, old.event)
        p = the_process(old.self, old.event)
        return ((count_effects('update_info') == 1 and effect_at('update_info', 0)[0] is p
                 and effect_at('update_info', 0)[1] == status.supvisors_id.identifier
                 and effect_at('update_info', 0)[2] is event
                 and count_effects('application_update') == 1
                 and effect_at('application_update', 0)[0] is old.self.applications[old.event['group']]
                 and count_effects('force_state') == 0)
                if count_effects('update_info') >= 1 else not ok)

    def post_effect_update_only_when_accepted(self, status, old):
        return implies(count_effects('update_info') > 0, accepted(old.self, old.status, old.event))

    def post_effect_forced_only_when_admitted(self, status, old):
        """a forced event (sent by the Master when a start / stop is given up) is subject to the same guard"""
        return implies(count_effects('force_state') > 0,
                       old.status._state in ADMITTED and known_process(old.self, old.event) and 'forced' in old.event)


@contract('context:Context.on_process_disability_event', props=['C12', 'C13'])
class OnProcessDisabilityEvent:
    """statement C13: 'process state, removal and disability events are only taken into account from peers that passed
    the handshake (CHECKED or RUNNING)'; C12 mechanism 'events accepted from CHECKED/RUNNING peers only'.
    The disability flag of the report of that instance is updated IFF the local status of the sender is CHECKED or
    RUNNING and the process is known with a report of that instance; otherwise nothing changes, nothing is published."""
    raises = ()
    inline = ['process:ProcessStatus.update_disability']   # real code: no need of the C11 invariant for this clause

    def pre_valid(self, status, event):
        return status.supvisors is self.supvisors and 'group' in event and 'name' in event and 'disabled' in event

    def pre_event(self, event):
        """payload built by SupervisorListener.on_process_disability from the local process info (real process name)"""
        return event['name'] != '*'

    def post_refused_unless_admitted(self, status, old):
        return implies(old.status._state not in ADMITTED, unchanged())

    def post_effect_refused_unless_admitted(self, status, old):
        return implies(old.status._state not in ADMITTED, no_effect())

    def post_refused_when_unknown(self, status, old):
        return implies(not known_process(old.self, old.event)
                       or status.supvisors_id.identifier not in the_process(old.self, old.event).info_map,
                       unchanged())

    def post_applied_when_admitted(self, status, old):
        ident = status.supvisors_id.identifier
        p = the_process(self, old.event)
        return implies(old.status._state in ADMITTED and known_process(old.self, old.event)
                       and ident in the_process(old.self, old.event).info_map,
                       p is the_process(old.self, old.event)
                       and p.info_map[ident]['disabled'] == old.event['disabled'])

    def post_effect_published_when_applied(self, status, event, old):
        ident = status.supvisors_id.identifier
        return implies(old.status._state in ADMITTED and known_process(old.self, old.event)
                       and ident in the_process(old.self, old.event).info_map
                       and self.supvisors.external_publisher is not None,
                       count_effects('send_process_event') == 1)
