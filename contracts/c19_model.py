"""C19 - Start predictions are side-effect free (clause 1, the model command): ProcessStartCommandModel.start.

contracts/c19.py proves that the process / info_map / payload records of a model command are allocated by its
constructor.  Here: the 'start' of a model command sends nothing and writes only through these objects
(`self.process.running_identifiers`), the command itself (`request_sequence_counter`) and the event list of the model
(`supvisors.starter_model.event_list`); the events it generates name the MOCK process of the command, so that
StarterModel.feed_model (`process._state = state`, `process.info_map[identifier]['state'] = state`) writes into the mock."""
from pyvc.spec import *

GROUP = 'process'


@contract('commander:ProcessStartCommandModel.start', props=['C19'])
class ModelCommandStart:
    """statement: 'test_start_application and test_start_process only predict: they send no request and leave every
    status Supvisors reports (process states and per-instance information, application states, instance loads, jobs in
    progress) exactly as it was'"""
    raises = ()
    exact = True

    def modifies(self):
        """only the command, the running set of ITS process (the mock) and the event list of the model"""
        return [field(self, 'request_sequence_counter'), contents(self.process.running_identifiers),
                contents(self.supvisors.starter_model.event_list)]

    def pre_target(self):
        """Commander.process_job starts a command once an instance was chosen (C04)"""
        return self.identifier is not None and self.instance_status is not None

    def pre_model_running(self):
        """test_start_application / test_start_processes set the event list before anything is planned"""
        return self.supvisors.starter_model.event_list is not None

    def post_effect_sends_no_request(self):
        """'they send no request'"""
        return no_effect()

    def post_listed_in_the_mock(self):
        return self.identifier in self.process.running_identifiers

    def post_events_name_the_mock(self, old):
        """the generated events (STARTING, RUNNING, then EXITED when the rules wait for the exit) are appended to the
        event list of the model and name the process of the command (the mock), on the instance of the command"""
        events = self.supvisors.starter_model.event_list
        n = len(old.self.supvisors.starter_model.event_list)
        return (len(events) == n + ite(self.process.rules.wait_exit, 3, 2)
                and forall(int, lambda j: implies(n <= j and j < len(events),
                                                  events[j][0] is self.process and events[j][1] == self.identifier))
                and events[n][2] == ProcessStates.STARTING and events[n + 1][2] == ProcessStates.RUNNING)

    def post_former_events_kept(self, old):
        events = self.supvisors.starter_model.event_list
        return forall(int, lambda j: implies(
            0 <= j and j < len(old.self.supvisors.starter_model.event_list),
            events[j][0] is old.self.supvisors.starter_model.event_list[j][0]
            and events[j][1] == old.self.supvisors.starter_model.event_list[j][1]
            and events[j][2] == old.self.supvisors.starter_model.event_list[j][2]))
