"""C11 - Process status is a deterministic synthesis of per-instance reports.

Abstract view of a ProcessStatus: st(i) = info_map[i]['state'] (last report of instance i), listed(i) = i in
running_identifiers, mtime(i) = info_map[i]['local_mtime'].  R = running-like states.
"""
from pyvc.spec import *

GROUP = 'process'   # contracts of one group use each other's contracts at call sites (pyvc/hooks.py contract_for_call)

R = (ProcessStates.STARTING, ProcessStates.BACKOFF, ProcessStates.RUNNING)
S = (ProcessStates.STOPPED, ProcessStates.EXITED, ProcessStates.FATAL, ProcessStates.UNKNOWN)
RS = (ProcessStates.STARTING, ProcessStates.BACKOFF, ProcessStates.RUNNING, ProcessStates.STOPPING)
INFO_KEYS = ('state', 'expected', 'local_mtime', 'event_time', 'now', 'now_monotonic', 'extra_args', 'has_crashed',
             'start', 'stop', 'start_monotonic', 'stop_monotonic', 'uptime', 'description', 'statename', 'spawnerr',
             'pid', 'program_name', 'process_index', 'disabled')


# ------------------------------------------------------------------------------------------ shape validity
def info_shape(info):
    return all(k in info for k in INFO_KEYS)


def shape(p):
    """payload records of distinct instances are distinct objects and carry the keys ProcessStatus maintains"""
    return (forall(str, lambda i: implies(i in p.info_map, info_shape(p.info_map[i])))
            and forall(str, str, lambda i, j: implies(i in p.info_map and j in p.info_map and i != j,
                                                      p.info_map[i] is not p.info_map[j])))


# ------------------------------------------------------------------------------------------ object invariant I11
def listed_ok_at(p, i):
    """listed only where the last report is running-like or STOPPING; running-like reports are always listed"""
    return (implies(i in p.running_identifiers, i in p.info_map and p.info_map[i]['state'] in RS)
            and implies(i in p.info_map and p.info_map[i]['state'] in R, i in p.running_identifiers))


def none_listed_when_stopped(p):
    return implies(p._state in S, forall(str, lambda i: i not in p.running_identifiers))


def synth(p):
    """the state shown is the synthesis the statement describes"""
    one = forall(str, lambda i: implies(
        i in p.running_identifiers and forall(str, lambda j: implies(j in p.running_identifiers, j == i)),
        p._state == p.info_map[i]['state'] and p.expected_exit))
    several = implies(
        exists(str, str, lambda i, j: i != j and i in p.running_identifiers and j in p.running_identifiers),
        p._state == most_advanced(p))
    nowhere = implies(
        forall(str, lambda i: i not in p.running_identifiers),
        ite(exists(str, lambda i: i in p.info_map and p.info_map[i]['state'] == ProcessStates.STOPPING),
            p._state == ProcessStates.STOPPING and p.expected_exit,
            exists(str, lambda m: m in p.info_map and p._state == p.info_map[m]['state']
                   and p.expected_exit == p.info_map[m]['expected']
                   and forall(str, lambda i: implies(i in p.info_map,
                                                     p.info_map[i]['local_mtime'] <= p.info_map[m]['local_mtime'])))))
    return one and several and nowhere


def present(p, s):
    return exists(str, lambda i: i in p.running_identifiers and p.info_map[i]['state'] == s)


def most_advanced(p):
    """most advanced running state among the listed copies: RUNNING, then BACKOFF, then STARTING, then STOPPING"""
    return ite(present(p, ProcessStates.RUNNING), ProcessStates.RUNNING,
               ite(present(p, ProcessStates.BACKOFF), ProcessStates.BACKOFF,
                   ite(present(p, ProcessStates.STARTING), ProcessStates.STARTING,
                       ite(present(p, ProcessStates.STOPPING), ProcessStates.STOPPING, ProcessStates.UNKNOWN))))


def I11(p):
    return (shape(p) and forall(str, lambda i: listed_ok_at(p, i)) and none_listed_when_stopped(p)
            and (exists(str, lambda i: i in p.info_map) and synth(p) or not exists(str, lambda i: i in p.info_map)
                 and forall(str, lambda i: i not in p.running_identifiers)))


def I11_nonempty(p):
    return shape(p) and forall(str, lambda i: listed_ok_at(p, i)) and none_listed_when_stopped(p) and synth(p)


# ------------------------------------------------------------------------------------------ internal helper
@contract('process:ProcessStatus.update_status', props=['C11'])
class UpdateStatus:
    """Internal helper, called by add_info / update_info after info_map[identifier] has been rewritten, i.e. with the
    invariant broken at `identifier` only.  Post: the full invariant and the listing transition of the statement:
    'listed on exactly the instances whose last report is STARTING, BACKOFF or RUNNING (an instance reporting
    STOPPING stays listed until it reports a stopped state)'."""
    raises = ()

    def modifies(self):
        return [field(self, '_state'), field(self, 'expected_exit'), field(self, 'running_identifiers'),
                contents(self.running_identifiers)]

    def pre_shape(self, identifier, new_state):
        return shape(self) and identifier in self.info_map and self.info_map[identifier]['state'] == new_state

    def pre_invariant_except_at_identifier(self, identifier):
        return (forall(str, lambda i: implies(i != identifier, listed_ok_at(self, i)))
                and none_listed_when_stopped(self))

    def post_listing(self, identifier, new_state, old):
        return forall(str, lambda i: (i in self.running_identifiers) == (
            ite(i == identifier,
                new_state in R or (new_state == ProcessStates.STOPPING and i in old.self.running_identifiers),
                i in old.self.running_identifiers)))

    def post_invariant(self):
        return I11_nonempty(self)

    def post_set_object(self, new_state, old):
        """the set of running identifiers is the same object unless a running-like report replaces it by a new one
        (needed by callers that hold several ProcessStatus: no set is ever shared between two of them)"""
        return ite(new_state in R, was_fresh(self.running_identifiers)
                   or self.running_identifiers is old.self.running_identifiers,
                   self.running_identifiers is old.self.running_identifiers)

    def post_conflict_flag(self):
        return self.conflicting() == exists(str, str, lambda i, j: i != j and i in self.running_identifiers
                                            and j in self.running_identifiers)


# ------------------------------------------------------------------------------------------ payload shapes
SUPERVISOR_INFO_KEYS = ('name', 'group', 'state', 'statename', 'start', 'stop', 'now', 'pid', 'description', 'spawnerr',
                        'expected', 'now_monotonic', 'start_monotonic', 'stop_monotonic', 'startsecs', 'stopwaitsecs',
                        'extra_args', 'disabled', 'program_name', 'process_index', 'has_stdout', 'has_stderr')
EVENT_KEYS = ('state', 'now', 'now_monotonic', 'extra_args', 'expected', 'spawnerr')


def not_an_entry(p, payload):
    return forall(str, lambda j: implies(j in p.info_map, p.info_map[j] is not payload))


def mtimes_in_the_past(p):
    """every recorded reception time was read from the monotonic clock earlier"""
    return forall(str, lambda j: implies(j in p.info_map, p.info_map[j]['local_mtime'] <= clock()))


def listing_transition(p, old_p, identifier, s):
    """statement: listed exactly where the last report is running-like; STOPPING stays listed until a stopped state"""
    return forall(str, lambda i: (i in p.running_identifiers) == (
        ite(i == identifier,
            s in R or (s == ProcessStates.STOPPING and i in old_p.running_identifiers),
            i in old_p.running_identifiers)))


def other_entries_untouched(p, old_p, identifier):
    """statement: '... without touching the other instances' entries'"""
    return forall(str, lambda j: implies(j != identifier,
                                         (j in p.info_map) == (j in old_p.info_map)
                                         and implies(j in p.info_map, p.info_map[j] is old_p.info_map[j])))


PROCESS_FIELDS_MODIFIED = ('_state', 'expected_exit', 'running_identifiers', 'last_event_mtime', 'forced_state',
                           'forced_reason', '_extra_args', '_program_name', '_process_index')


@contract('process:ProcessStatus.add_info', props=['C11'])
class AddInfo:
    """snapshot of one instance (handshake / process added): same synthesis as an event"""
    raises = ()

    def modifies(self, payload):
        return [field(self, f) for f in PROCESS_FIELDS_MODIFIED] + [
            contents(self.info_map), contents(self.running_identifiers), contents(payload)]

    def pre_invariant(self):
        return I11(self)

    def pre_payload(self, payload):
        return all(k in payload for k in SUPERVISOR_INFO_KEYS) and not_an_entry(self, payload)

    def pre_clock(self):
        return mtimes_in_the_past(self)

    def post_invariant(self):
        return I11_nonempty(self) and mtimes_in_the_past(self)

    def post_entry(self, identifier, payload):
        return identifier in self.info_map and self.info_map[identifier] is payload

    def post_last_report(self, identifier, payload, old):
        return self.info_map[identifier]['state'] == old.payload['state']

    def post_listing(self, identifier, payload, old):
        return listing_transition(self, old.self, identifier, old.payload['state'])

    def post_others_untouched(self, identifier, old):
        return other_entries_untouched(self, old.self, identifier)

    def post_forced_state(self, payload, old):
        """a forced state is only kept across a snapshot saying STOPPED (default state of a Supervisor just started)"""
        return self.forced_state == ite(old.payload['state'] == ProcessStates.STOPPED, old.self.forced_state, None)


@contract('process:ProcessStatus.update_info', props=['C11'])
class UpdateInfo:
    """process event received from instance `identifier`"""
    raises = ()

    def modifies(self, identifier):
        return [field(self, f) for f in PROCESS_FIELDS_MODIFIED] + [
            contents(self.running_identifiers), contents(self.info_map[identifier])]

    def pre_invariant(self):
        return I11_nonempty(self)

    def pre_known(self, identifier):
        return identifier in self.info_map

    def pre_payload(self, payload):
        return all(k in payload for k in EVENT_KEYS) and not_an_entry(self, payload)

    def pre_clock(self):
        return mtimes_in_the_past(self)

    def post_invariant(self):
        return I11_nonempty(self) and mtimes_in_the_past(self)

    def post_last_report(self, identifier, payload):
        return (self.info_map[identifier]['state'] == payload['state']
                and self.info_map[identifier]['expected'] == payload['expected'])

    def post_listing(self, identifier, payload, old):
        return listing_transition(self, old.self, identifier, payload['state'])

    def post_others_untouched(self, identifier, old):
        return other_entries_untouched(self, old.self, identifier) and self.info_map[identifier] is old.self.info_map[identifier]

    def post_forced_state_reset(self):
        """statement: 'a state forced by Supvisors overrides the display until the next event received'"""
        return self.forced_state is None

    def post_set_object(self, payload, old):
        return ite(payload['state'] in R, was_fresh(self.running_identifiers)
                   or self.running_identifiers is old.self.running_identifiers,
                   self.running_identifiers is old.self.running_identifiers)

    def post_most_recent_stopped_state_shown(self, identifier, payload):
        """statement: 'when it runs nowhere ... the stopped-like state most recently received' (strictly most recent)"""
        return implies(forall(str, lambda i: i not in self.running_identifiers)
                       and not exists(str, lambda i: i in self.info_map and self.info_map[i]['state'] == ProcessStates.STOPPING)
                       and forall(str, lambda j: implies(j in self.info_map and j != identifier,
                                                         self.info_map[j]['local_mtime'] < self.info_map[identifier]['local_mtime'])),
                       self._state == payload['state'] and self.expected_exit == payload['expected'])


@contract('process:ProcessStatus.invalidate_identifier', props=['C11', 'C07', 'C06'])
class InvalidateIdentifier:
    """statement: 'losing an instance turns what ran there into FATAL without touching the other instances' entries'"""
    raises = ()

    def modifies(self, identifier):
        return [field(self, f) for f in PROCESS_FIELDS_MODIFIED] + [
            contents(self.running_identifiers), contents(self.info_map[identifier])]

    def pre_invariant(self):
        return I11(self) and mtimes_in_the_past(self)

    def post_invariant(self):
        return I11(self) and mtimes_in_the_past(self)

    def post_not_listed(self, identifier):
        return identifier not in self.running_identifiers

    def post_set_object(self, old):
        return self.running_identifiers is old.self.running_identifiers

    def post_fatal_if_was_listed(self, identifier, old):
        return implies(identifier in old.self.running_identifiers,
                       self.info_map[identifier]['state'] == ProcessStates.FATAL
                       and not self.info_map[identifier]['expected'])

    def post_untouched_if_not_listed(self, identifier, old):
        return implies(identifier not in old.self.running_identifiers,
                       self._state == old.self._state and self.forced_state == old.self.forced_state
                       and implies(identifier in self.info_map,
                                   self.info_map[identifier]['state'] == old.self.info_map[identifier]['state']))

    def post_others(self, identifier, old):
        return (other_entries_untouched(self, old.self, identifier)
                and forall(str, lambda j: implies(j != identifier,
                                                  (j in self.running_identifiers) == (j in old.self.running_identifiers))))

    def post_result(self, identifier, result, old):
        return result == (identifier in old.self.running_identifiers
                          and forall(str, lambda j: j not in self.running_identifiers))


@contract('process:ProcessStatus.remove_identifier', props=['C11'])
class RemoveIdentifier:
    """the program disappeared from instance `identifier` (update_numprocs): its report no longer exists"""
    raises = ()

    def modifies(self, identifier):
        return [field(self, f) for f in PROCESS_FIELDS_MODIFIED] + [contents(self.info_map), contents(self.running_identifiers)]

    def pre_invariant(self, identifier):
        return I11_nonempty(self) and identifier in self.info_map

    def post_removed(self, identifier, old):
        return (identifier not in self.info_map
                and forall(str, lambda j: implies(j != identifier, (j in self.info_map) == (j in old.self.info_map)
                                                  and implies(j in self.info_map, self.info_map[j] is old.self.info_map[j]))))

    def post_invariant(self):
        """listed exactly on instances whose last report is running-like: an instance without report is not listed"""
        return I11(self)

    def post_result(self, result):
        return result == (not exists(str, lambda j: j in self.info_map))


@contract('process:ProcessStatus.force_state', props=['C11', 'C10'])
class ForceState:
    """statement: 'a state forced by Supvisors (start/stop given up) overrides the display ..., is dismissed if newer
    information from the targeted instance has already arrived'"""
    raises = ()

    def modifies(self):
        return [field(self, 'forced_state'), field(self, 'forced_reason'), field(self, 'last_event_mtime')]

    def pre_invariant(self):
        return I11(self)

    def pre_event(self, event):
        return 'identifier' in event and 'now_monotonic' in event and 'state' in event and 'spawnerr' in event

    def post_applied_iff_not_outdated(self, event, result):
        return result == (event['identifier'] not in self.info_map
                          or self.info_map[event['identifier']]['event_time'] <= event['now_monotonic'])

    def post_forced(self, event, result, old):
        return ite(result,
                   self.forced_state == event['state'] and self.forced_reason == event['spawnerr'],
                   self.forced_state == old.self.forced_state and self.forced_reason == old.self.forced_reason)

    def post_display(self, event, result):
        return implies(result, self.displayed_state == event['state'])


@contract('process:ProcessStatus.displayed_state[getter]', props=['C11'])
class DisplayedState:
    raises = ()

    def modifies(self):
        return []

    def post_forced_overrides(self, result):
        return result == ite(self.forced_state is None, self._state, self.forced_state)


@contract('process:ProcessStatus.update_times', props=['C11'])
class UpdateTimes:
    """a tick of the instance refreshes the times of its entry: no effect on the synthesis"""
    raises = ()

    def modifies(self, identifier):
        return [contents(self.info_map[identifier])]

    def pre_invariant(self):
        return I11(self)

    def post_invariant(self):
        return I11(self)

    def post_state_untouched(self, identifier, old):
        return implies(identifier in self.info_map,
                       self.info_map[identifier]['state'] == old.self.info_map[identifier]['state']
                       and self.info_map[identifier]['local_mtime'] == old.self.info_map[identifier]['local_mtime']
                       and self.info_map[identifier]['event_time'] == old.self.info_map[identifier]['event_time'])


@contract('process:ProcessStatus.update_disability', props=['C11'])
class UpdateDisability:
    raises = ()

    def modifies(self, identifier):
        return [contents(self.info_map[identifier])]

    def pre_invariant(self):
        return I11(self)

    def post_invariant(self):
        return I11(self)

    def post_disabled(self, identifier, disabled):
        return implies(identifier in self.info_map, self.info_map[identifier]['disabled'] == disabled)
