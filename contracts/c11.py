"""C11 - Process status is a deterministic synthesis of per-instance reports.

Abstract view of a ProcessStatus: st(i) = info_map[i]['state'] (last report of instance i), listed(i) = i in
running_identifiers, mtime(i) = info_map[i]['local_mtime'].  R = running-like states.
"""
from pyvc.spec import *

R = (ProcessStates.STARTING, ProcessStates.BACKOFF, ProcessStates.RUNNING)
S = (ProcessStates.STOPPED, ProcessStates.EXITED, ProcessStates.FATAL, ProcessStates.UNKNOWN)
RS = (ProcessStates.STARTING, ProcessStates.BACKOFF, ProcessStates.RUNNING, ProcessStates.STOPPING)
INFO_KEYS = ('state', 'expected', 'local_mtime', 'event_time', 'now', 'now_monotonic', 'extra_args', 'has_crashed',
             'start', 'stop', 'start_monotonic', 'stop_monotonic', 'uptime', 'description', 'statename', 'spawnerr',
             'pid', 'program_name', 'process_index', 'disabled')


# ------------------------------------------------------------------------------------------ shape validity
def info_shape(info):
    return all(k in info for k in INFO_KEYS)


def shape(p):
    """payload records of distinct instances are distinct objects and carry the keys ProcessStatus maintains"""
    return (forall(str, lambda i: implies(i in p.info_map, info_shape(p.info_map[i])))
            and forall(str, str, lambda i, j: implies(i in p.info_map and j in p.info_map and i != j,
                                                      p.info_map[i] is not p.info_map[j])))


# ------------------------------------------------------------------------------------------ object invariant I11
def listed_ok_at(p, i):
    """listed only where the last report is running-like or STOPPING; running-like reports are always listed"""
    return (implies(i in p.running_identifiers, i in p.info_map and p.info_map[i]['state'] in RS)
            and implies(i in p.info_map and p.info_map[i]['state'] in R, i in p.running_identifiers))


def none_listed_when_stopped(p):
    return implies(p._state in S, forall(str, lambda i: i not in p.running_identifiers))


def synth(p):
    """the state shown is the synthesis the statement describes"""
    one = forall(str, lambda i: implies(
        i in p.running_identifiers and forall(str, lambda j: implies(j in p.running_identifiers, j == i)),
        p._state == p.info_map[i]['state'] and p.expected_exit))
    several = implies(
        exists(str, str, lambda i, j: i != j and i in p.running_identifiers and j in p.running_identifiers),
        p._state == most_advanced(p))
    nowhere = implies(
        forall(str, lambda i: i not in p.running_identifiers),
        ite(exists(str, lambda i: i in p.info_map and p.info_map[i]['state'] == ProcessStates.STOPPING),
            p._state == ProcessStates.STOPPING and p.expected_exit,
            exists(str, lambda m: m in p.info_map and p._state == p.info_map[m]['state']
                   and p.expected_exit == p.info_map[m]['expected']
                   and forall(str, lambda i: implies(i in p.info_map,
                                                     p.info_map[i]['local_mtime'] <= p.info_map[m]['local_mtime'])))))
    return one and several and nowhere


def present(p, s):
    return exists(str, lambda i: i in p.running_identifiers and p.info_map[i]['state'] == s)


def most_advanced(p):
    """most advanced running state among the listed copies: RUNNING, then BACKOFF, then STARTING, then STOPPING"""
    return ite(present(p, ProcessStates.RUNNING), ProcessStates.RUNNING,
               ite(present(p, ProcessStates.BACKOFF), ProcessStates.BACKOFF,
                   ite(present(p, ProcessStates.STARTING), ProcessStates.STARTING,
                       ite(present(p, ProcessStates.STOPPING), ProcessStates.STOPPING, ProcessStates.UNKNOWN))))


def I11(p):
    return (shape(p) and forall(str, lambda i: listed_ok_at(p, i)) and none_listed_when_stopped(p)
            and (exists(str, lambda i: i in p.info_map) and synth(p) or not exists(str, lambda i: i in p.info_map)
                 and forall(str, lambda i: i not in p.running_identifiers)))


def I11_nonempty(p):
    return shape(p) and forall(str, lambda i: listed_ok_at(p, i)) and none_listed_when_stopped(p) and synth(p)


# ------------------------------------------------------------------------------------------ internal helper
@contract('process:ProcessStatus.update_status', props=['C11', 'C12'])
class UpdateStatus:
    """Internal helper, called by add_info / update_info after info_map[identifier] has been rewritten, i.e. with the
    invariant broken at `identifier` only.  Post: the full invariant and the listing transition of the statement:
    'listed on exactly the instances whose last report is STARTING, BACKOFF or RUNNING (an instance reporting
    STOPPING stays listed until it reports a stopped state)'."""
    raises = ()

    def modifies(self):
        return [field(self, '_state'), field(self, 'expected_exit'), field(self, 'running_identifiers'),
                contents(self.running_identifiers)]

    def pre_shape(self, identifier, new_state):
        return shape(self) and identifier in self.info_map and self.info_map[identifier]['state'] == new_state

    def pre_invariant_except_at_identifier(self, identifier):
        return (forall(str, lambda i: implies(i != identifier, listed_ok_at(self, i)))
                and none_listed_when_stopped(self))

    def post_listing(self, identifier, new_state, old):
        return forall(str, lambda i: (i in self.running_identifiers) == (
            ite(i == identifier,
                new_state in R or (new_state == ProcessStates.STOPPING and i in old.self.running_identifiers),
                i in old.self.running_identifiers)))

    def post_invariant(self):
        return I11_nonempty(self)

    def post_conflict_flag(self):
        return self.conflicting() == exists(str, str, lambda i, j: i != j and i in self.running_identifiers
                                            and j in self.running_identifiers)
