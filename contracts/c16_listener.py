"""C16 - 'handling it never raises an internal error ... the last-resort guard that protects the Supervisor thread':
the last-resort guards of listener.SupervisorListener.  Whatever the callees of a handler raise (their contracts are
ASSUMED here with raises = ('Exception',): ANY exception may escape them - the weakest possible assumption, the point of
these contracts is the guard and not the callees, whose own exception-freedom is the subject of the other C16
obligations), nothing escapes the handler into the Supervisor thread: raises = ().

Own group `listener`: the catch-all call abstractions below must not be seen by the proofs of any other file.
"""
from pyvc.spec import *

GROUP = 'listener'


# --------------------------------------------------------------------------------------------------------------------
# call-outs of the handlers: anything may be written, any exception may escape
@contract('context:Context.on_local_tick_event', props=[])
class OnLocalTickEvent:
    assumed = True
    raises = ('Exception',)
    effect = 'context.on_local_tick_event'


@contract('statemachine:FiniteStateMachine.on_timer_event', props=[])
class OnTimerEvent:
    assumed = True
    raises = ('Exception',)
    effect = 'fsm.on_timer_event'


@contract('internal_com.rpchandler:RpcHandler.send_tick_event', props=[])
class SendTickEvent:
    assumed = True
    raises = ('Exception',)
    effect = 'send_tick_event'


@contract('internal_com.multicast:MulticastSender.send_discovery_event', props=[])
class SendDiscoveryEvent:
    assumed = True
    raises = ('Exception',)
    effect = 'send_discovery_event'


@contract('listener:SupervisorListener._on_tick_stats', props=[])
class OnTickStats:
    assumed = True
    raises = ('Exception',)
    effect = 'on_tick_stats'


@contract('listener:SupervisorListener.read_publication', props=[])
class ReadPublication:
    assumed = True
    raises = ('Exception',)
    effect = 'read_publication'


@contract('listener:SupervisorListener.read_notification', props=[])
class ReadNotification:
    assumed = True
    raises = ('Exception',)
    effect = 'read_notification'


# --------------------------------------------------------------------------------------------------------------------
@contract('listener:SupervisorListener.on_tick', props=['C16'])
class OnTickGuard:
    """'the last-resort guard that protects the Supervisor thread': nothing escapes on_tick, whatever the periodic
    evaluation (Context.on_local_tick_event, FiniteStateMachine.on_timer_event), the publication of the tick and the
    statistics raise"""
    raises = ()
    types = {'event': 'TickEvent'}


@contract('listener:SupervisorListener.on_remote_event', props=['C16'])
class OnRemoteEventGuard:
    """'the last-resort guard that protects the Supervisor thread': nothing escapes on_remote_event, whatever the
    decoding and handling of a publication / notification raise"""
    raises = ()
    types = {'event': 'RemoteCommunicationEvent'}
