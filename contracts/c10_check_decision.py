"""C10 clause 2 / C16 - ApplicationJobs.check: DECISION facet (docs/ENGINE.md section 8).

contracts/c10_check.py proves the clauses of check() under quantified loop invariants (the commands of the iterated copy
stay targeted across the re-entrant call-outs): on a breaking edit those obligations end UNDECIDED (no counter-model small
enough under the invariants).  The same per-command clauses are therefore decided here under quantifier-free invariants;
the callees are taken by contracts that ask nothing of the caller:
* timed_out(): total reading of AbstractTimedOut (contracts/c10.py) - the result follows the formula when the command is
  targeted, otherwise the real code raises (None instance_status / no report) or returns anything;
* fail_command(): the re-entrant call-out, only known to keep the wiring and the in-flight list OBJECT (a sub-set of
  FailCommandCallOut, contracts/c10_check.py);
* next(): opaque (its preconditions are call-pre obligations of the facets of contracts/c10_check.py).
"""
from pyvc.spec import *

GROUP = 'commander'   # contracts of one group use each other's contracts at call sites (pyvc/hooks.py contract_for_call)
from contracts.c10 import target_info_known, timed_out_result
from contracts.c10_check import wired, WIRING


@contract('commander:ProcessCommand.timed_out', props=[])
class TimedOutTotal:
    assumed = True
    raises = ('TypeError', 'KeyError', 'AttributeError')
    returns = 'Tuple[ProcessStates, ProcessRequestResult, float]'

    def modifies(self):
        return []

    def post_result(self, result):
        return implies(target_info_known(self), result[1] == timed_out_result(self)
                       and result[2] == self.process.info_map[self.identifier]['event_time'])


@contract('commander:ApplicationJobs.fail_command', props=[])
class FailCommandOpaqueCallOut:
    assumed = True
    raises = ('KeyError',)
    effect = 'fail_command'

    def modifies(self, process, identifier, event_time, reason):
        return [everything_but(*WIRING, contents(self.supvisors.context.instances))]

    def pre_root(self):
        return wired(self)

    def post_keeps_list(self, old):
        return self.current_jobs is old.self.current_jobs


@contract('commander:ApplicationJobs.next', props=[])
class NextOpaque:
    assumed = True
    raises = ()


@contract('commander:ApplicationJobs.check', props=['C10', 'C16'])
class CheckDecision:
    """C10: 'if the expected ... acknowledgement is not seen within the tick margin ... the job is abandoned, the process
    is reported FATAL (start) or STOPPED (stop) ... and the sequence moves on'.  Per command examined, on the answer of its timed_out() (TimedOutTotal /
    AbstractTimedOut: the statement formula, evaluated in the state in which the command is examined):
    * TIMED_OUT: exactly one fail_command(its process, its target, the time of its last event), and when that call-out -
      which re-enters on_event / next() - is made, one command has ALREADY left the in-flight list (code comment: 'this is
      done BEFORE the forced state is sent because the event will come back immediately in the on_event method');
    * SUCCESS (reached outside the sequencer): one command leaves the list, nothing is emitted;
    * IN_PROGRESS: the list is untouched, nothing is emitted."""
    variants = ['ApplicationStartJobs', 'ApplicationStopJobs']
    # not this facet's business: ValueError of list.remove (contracts/wip_c10_check.txt, finding candidate), the errors of
    # timed_out() on an untargeted command (call-pre obligations of contracts/c10_check.py), KeyError of fail_command
    raises = ('ValueError', 'KeyError', 'TypeError', 'AttributeError')

    def pre_root(self):
        return wired(self)

    def loop0_effects(self):
        return ('fail_command',)

    def loop0_inv(self, k, loop_old):
        return self.supvisors is loop_old.self.supvisors and wired(self)

    def loop0_iter_timed_out_is_reported_failed(self, k, command, result, event_time, iter_old):
        """`result`, `event_time`: what timed_out() answered for this command (locals of check(); AbstractTimedOut and the
        proofs of its two overrides tie them to the statement formula and to the time of the last event)"""
        c = iter_old(command)
        e = effect_at('fail_command', 0)
        one = (e[0] is c.process and e[1] == c.identifier and e[2] == event_time) \
            if count_effects('fail_command') == 1 else False
        return ite(result == ProcessRequestResult.TIMED_OUT, one, no_effect())

    def loop0_iter_removed_before_the_call_out(self, k, command, iter_old):
        called = count_effects('fail_command') == 1
        before = effect_pre('fail_command', 0) if called else None
        return ((at(before, iter_old(self).current_jobs) is iter_old(self).current_jobs
                 and len(at(before, iter_old(self).current_jobs)) == len(iter_old(self.current_jobs)) - 1)
                if called else True)

    def loop0_iter_finished_leaves(self, k, command, result, iter_old):
        return implies(result == ProcessRequestResult.SUCCESS,
                       self.current_jobs is iter_old(self).current_jobs
                       and len(self.current_jobs) == len(iter_old(self.current_jobs)) - 1)

    def loop0_iter_in_progress_stays(self, k, command, result, iter_old):
        return implies(result == ProcessRequestResult.IN_PROGRESS,
                       self.current_jobs is iter_old(self).current_jobs
                       and self.current_jobs == iter_old(self.current_jobs))
