"""C10 - Every start/stop job terminates in bounded ticks whatever gets lost."""
from pyvc.spec import *

STARTING_LIKE = (ProcessStates.BACKOFF, ProcessStates.STARTING)
STOPPED_LIKE = (ProcessStates.STOPPED, ProcessStates.EXITED, ProcessStates.FATAL, ProcessStates.UNKNOWN)


def target_info_known(cmd):
    """object invariant of a command sitting in current_jobs: the target knows the program, an instance is attached"""
    return (cmd.identifier is not None and cmd.identifier in cmd.process.info_map
            and 'state' in cmd.process.info_map[cmd.identifier]
            and 'event_time' in cmd.process.info_map[cmd.identifier]
            and cmd.instance_status is not None)


@contract('commander:ProcessStartCommand.timed_out', props=['C10', 'C03'])
class StartTimedOut:
    """statement: 'if the expected STARTING acknowledgement is not seen within the tick margin, or RUNNING within that
    margin plus the program's startsecs ... the job is abandoned'; 'the only documented exception is a wait_exit
    program that never exits'"""
    raises = ()

    def modifies(self):
        return []

    def pre_target(self):
        return target_info_known(self)

    def post_timed_out_iff(self, result):
        info = self.process.info_map[self.identifier]
        st = info['state']
        seq = self.instance_status.times.remote_sequence_counter
        waiting_running = st in STARTING_LIKE
        waiting_starting = st != ProcessStates.RUNNING and st not in STARTING_LIKE
        return (result[1] == ProcessRequestResult.TIMED_OUT) == (
            (waiting_running and seq > self.request_sequence_counter + self._wait_ticks)
            or (waiting_starting and seq > self.request_sequence_counter + self.minimum_ticks))

    def post_running(self, result):
        info = self.process.info_map[self.identifier]
        wait = self.process.rules.wait_exit and not self.ignore_wait_exit
        return implies(info['state'] == ProcessStates.RUNNING,
                       result[1] == (ProcessRequestResult.IN_PROGRESS if wait else ProcessRequestResult.SUCCESS))

    def post_otherwise_in_progress(self, result):
        info = self.process.info_map[self.identifier]
        return implies(info['state'] != ProcessStates.RUNNING,
                       result[1] == ProcessRequestResult.TIMED_OUT or result[1] == ProcessRequestResult.IN_PROGRESS)

    def post_expected_state(self, result):
        st = self.process.info_map[self.identifier]['state']
        return result[0] == (ProcessStates.EXITED if st == ProcessStates.RUNNING and result[1] == ProcessRequestResult.IN_PROGRESS
                             else ProcessStates.RUNNING if (st == ProcessStates.RUNNING or st in STARTING_LIKE)
                             else ProcessStates.STARTING)

    def post_event_time(self, result):
        return result[2] == self.process.info_map[self.identifier]['event_time']


@contract('commander:ProcessStopCommand.timed_out', props=['C10', 'C09'])
class StopTimedOut:
    """statement: 'if the expected STOPPING acknowledgement is not seen within the tick margin, or STOPPED within that
    margin plus the program's stopwaitsecs ... the job is abandoned'"""
    raises = ()

    def modifies(self):
        return []

    def pre_target(self):
        return target_info_known(self)

    def post_timed_out_iff(self, result):
        st = self.process.info_map[self.identifier]['state']
        seq = self.instance_status.times.remote_sequence_counter
        return (result[1] == ProcessRequestResult.TIMED_OUT) == (
            (st == ProcessStates.STOPPING and seq > self.request_sequence_counter + self._wait_ticks)
            or (st != ProcessStates.STOPPING and st not in STOPPED_LIKE
                and seq > self.request_sequence_counter + self.minimum_ticks))

    def post_already_stopped(self, result):
        st = self.process.info_map[self.identifier]['state']
        return implies(st in STOPPED_LIKE, result[1] == ProcessRequestResult.SUCCESS and result[0] == st)

    def post_otherwise_in_progress(self, result):
        st = self.process.info_map[self.identifier]['state']
        return implies(st not in STOPPED_LIKE,
                       (result[1] == ProcessRequestResult.TIMED_OUT or result[1] == ProcessRequestResult.IN_PROGRESS)
                       and result[0] == (ProcessStates.STOPPED if st == ProcessStates.STOPPING else ProcessStates.STOPPING))

    def post_event_time(self, result):
        return result[2] == self.process.info_map[self.identifier]['event_time']
