"""C10 - Every start/stop job terminates in bounded ticks whatever gets lost."""
from pyvc.spec import *

GROUP = 'commander'   # contracts of one group use each other's contracts at call sites (pyvc/hooks.py contract_for_call)

STARTING_LIKE = (ProcessStates.BACKOFF, ProcessStates.STARTING)
STOPPED_LIKE = (ProcessStates.STOPPED, ProcessStates.EXITED, ProcessStates.FATAL, ProcessStates.UNKNOWN)


def target_info_known(cmd):
    """object invariant of a command sitting in current_jobs: the target knows the program, an instance is attached"""
    return (cmd.identifier is not None and cmd.identifier in cmd.process.info_map
            and 'state' in cmd.process.info_map[cmd.identifier]
            and 'event_time' in cmd.process.info_map[cmd.identifier]
            and cmd.instance_status is not None)


def start_timed_out_result(c):
    """statement: TIMED_OUT iff the STARTING acknowledgement is not seen within the tick margin, or RUNNING within that
    margin plus startsecs; RUNNING is SUCCESS unless an exit is awaited (documented exception: IN_PROGRESS unbounded)"""
    st = c.process.info_map[c.identifier]['state']
    seq = c.instance_status.times.remote_sequence_counter
    late = seq > c.request_sequence_counter + (c._wait_ticks if st in STARTING_LIKE else c.minimum_ticks)
    return ite(st == ProcessStates.RUNNING,
               ite(c.process.rules.wait_exit and not c.ignore_wait_exit, ProcessRequestResult.IN_PROGRESS, ProcessRequestResult.SUCCESS),
               ite(late, ProcessRequestResult.TIMED_OUT, ProcessRequestResult.IN_PROGRESS))


def stop_timed_out_result(c):
    st = c.process.info_map[c.identifier]['state']
    seq = c.instance_status.times.remote_sequence_counter
    late = seq > c.request_sequence_counter + (c._wait_ticks if st == ProcessStates.STOPPING else c.minimum_ticks)
    return ite(st in STOPPED_LIKE, ProcessRequestResult.SUCCESS,
               ite(late, ProcessRequestResult.TIMED_OUT, ProcessRequestResult.IN_PROGRESS))


def timed_out_result(c):
    return ite(isinstance(c, ProcessStartCommand), start_timed_out_result(c), stop_timed_out_result(c))


@contract('commander:ProcessCommand.timed_out', props=[])
class AbstractTimedOut:
    """abstract method (the body raises NotImplementedError; ProcessCommand itself is never instantiated): used where the
    call is dispatched dynamically (ApplicationJobs.check).  Each override is PROVED against the same formula:
    StartTimedOut.post_matches_abstract / StopTimedOut.post_matches_abstract."""
    assumed = True
    raises = ()
    returns = 'Tuple[ProcessStates, ProcessRequestResult, float]'

    def modifies(self):
        return []

    def pre_target(self):
        return target_info_known(self)

    def post_result(self, result):
        return result[1] == timed_out_result(self) and result[2] == self.process.info_map[self.identifier]['event_time']


@contract('commander:ProcessStartCommand.timed_out', props=['C10', 'C03'])
class StartTimedOut:
    """statement: 'if the expected STARTING acknowledgement is not seen within the tick margin, or RUNNING within that
    margin plus the program's startsecs ... the job is abandoned'; 'the only documented exception is a wait_exit
    program that never exits'"""
    raises = ()

    def modifies(self):
        return []

    def pre_target(self):
        return target_info_known(self)

    def post_timed_out_iff(self, result):
        info = self.process.info_map[self.identifier]
        st = info['state']
        seq = self.instance_status.times.remote_sequence_counter
        waiting_running = st in STARTING_LIKE
        waiting_starting = st != ProcessStates.RUNNING and st not in STARTING_LIKE
        return (result[1] == ProcessRequestResult.TIMED_OUT) == (
            (waiting_running and seq > self.request_sequence_counter + self._wait_ticks)
            or (waiting_starting and seq > self.request_sequence_counter + self.minimum_ticks))

    def post_matches_abstract(self, result):
        return result[1] == start_timed_out_result(self)

    def post_running(self, result):
        info = self.process.info_map[self.identifier]
        wait = self.process.rules.wait_exit and not self.ignore_wait_exit
        return implies(info['state'] == ProcessStates.RUNNING,
                       result[1] == (ProcessRequestResult.IN_PROGRESS if wait else ProcessRequestResult.SUCCESS))

    def post_otherwise_in_progress(self, result):
        info = self.process.info_map[self.identifier]
        return implies(info['state'] != ProcessStates.RUNNING,
                       result[1] == ProcessRequestResult.TIMED_OUT or result[1] == ProcessRequestResult.IN_PROGRESS)

    def post_expected_state(self, result):
        st = self.process.info_map[self.identifier]['state']
        return result[0] == (ProcessStates.EXITED if st == ProcessStates.RUNNING and result[1] == ProcessRequestResult.IN_PROGRESS
                             else ProcessStates.RUNNING if (st == ProcessStates.RUNNING or st in STARTING_LIKE)
                             else ProcessStates.STARTING)

    def post_event_time(self, result):
        return result[2] == self.process.info_map[self.identifier]['event_time']


@contract('commander:ProcessStopCommand.timed_out', props=['C10', 'C09'])
class StopTimedOut:
    """statement: 'if the expected STOPPING acknowledgement is not seen within the tick margin, or STOPPED within that
    margin plus the program's stopwaitsecs ... the job is abandoned'"""
    raises = ()

    def modifies(self):
        return []

    def pre_target(self):
        return target_info_known(self)

    def post_timed_out_iff(self, result):
        st = self.process.info_map[self.identifier]['state']
        seq = self.instance_status.times.remote_sequence_counter
        return (result[1] == ProcessRequestResult.TIMED_OUT) == (
            (st == ProcessStates.STOPPING and seq > self.request_sequence_counter + self._wait_ticks)
            or (st != ProcessStates.STOPPING and st not in STOPPED_LIKE
                and seq > self.request_sequence_counter + self.minimum_ticks))

    def post_matches_abstract(self, result):
        return result[1] == stop_timed_out_result(self)

    def post_already_stopped(self, result):
        st = self.process.info_map[self.identifier]['state']
        return implies(st in STOPPED_LIKE, result[1] == ProcessRequestResult.SUCCESS and result[0] == st)

    def post_otherwise_in_progress(self, result):
        st = self.process.info_map[self.identifier]['state']
        return implies(st not in STOPPED_LIKE,
                       (result[1] == ProcessRequestResult.TIMED_OUT or result[1] == ProcessRequestResult.IN_PROGRESS)
                       and result[0] == (ProcessStates.STOPPED if st == ProcessStates.STOPPING else ProcessStates.STOPPING))

    def post_event_time(self, result):
        return result[2] == self.process.info_map[self.identifier]['event_time']


# ------------------------------------------------------------------------------------------ clause 3: forced state
from contracts.assumed_repo import (reentrancy_discipline, job_discipline, reports_untouched, in_plan,
                                    other_command_lists_untouched)


def forced_payload(payload, process, identifier, event_time, forced_state, reason):
    return ('forced' in payload and payload['forced'] and payload['state'] == forced_state
            and payload['spawnerr'] == reason and payload['identifier'] == identifier
            and payload['now_monotonic'] == event_time and payload['group'] == process.application_name
            and payload['name'] == process.process_name and not payload['expected'])


@contract('listener:SupervisorListener.force_process_state', props=['C10'])
class ForceProcessState:
    """statement: 'the job is abandoned, the process is reported FATAL (start) or STOPPED (stop) with an explanatory
    reason on all instances': the payload carries `forced`, the forced state, the reason, the target identifier and the
    time of the last event received; it is applied locally (fsm) and then published to the other instances.
    RE-ENTRANT: see the assumed contract of FiniteStateMachine.on_process_state_event."""
    raises = ('KeyError',)
    effect = 'force_process_state'
    types = {'forced_state': 'ProcessStates'}

    def pre_local_status_exists(self):
        """shape validity (DESIGN 1.4): the local identifier is a key of context.instances"""
        return self.supvisors.context.local_identifier in self.supvisors.context.instances

    def post_effect_applied_locally_then_published(self, process, identifier, event_time, forced_state, reason, old):
        local = effect_at('fsm.on_process_state_event', 0)
        sent = effect_at('send_process_state_event', 0)
        once = count_effects('fsm.on_process_state_event') == 1 and count_effects('send_process_state_event') == 1
        return (local[0] is old.self.supvisors.context.local_status
                and forced_payload(local[1], old.process, identifier, event_time, forced_state, reason)
                and forced_payload(sent[0], old.process, identifier, event_time, forced_state, reason)) if once else False

    def post_discipline(self, old):
        return reentrancy_discipline(old)

    def exc_KeyError_effect_none(self):
        return no_effect()

    def exc_KeyError_unknown_target(self, identifier, old):
        """only when the target identifier is not (or no longer) known to the mapper; nothing is emitted then"""
        return identifier != '' and identifier not in old.self.supvisors.mapper.instances


@contract('commander:ApplicationJobs.fail_command', props=['C10', 'C03', 'C09'])
class FailCommand:
    """statement: 'the process is reported FATAL (start) or STOPPED (stop) with an explanatory reason': exactly one
    listener.force_process_state(process, identifier, event_time, FATAL | STOPPED, reason).
    RE-ENTRANT call-out: as seen from the job, job_discipline(self) and reports_untouched hold afterwards."""
    variants = ['ApplicationStartJobs', 'ApplicationStopJobs']
    raises = ('KeyError',)
    effect = 'fail_command'

    def pre_root(self):
        """shape validity: one Supvisors root, whose local identifier is a key of context.instances"""
        return (self.supvisors.listener.supvisors is self.supvisors
                and self.supvisors.context.local_identifier in self.supvisors.context.instances)

    def post_effect_forced_state(self, process, identifier, event_time, reason, old):
        e = effect_at('force_process_state', 0)
        expected = ProcessStates.FATAL if isinstance(self, ApplicationStartJobs) else ProcessStates.STOPPED
        return (e[0] is process and e[1] == identifier and e[2] == event_time and e[3] == expected
                and e[4] == reason) if count_effects('force_process_state') == 1 else False

    def post_discipline(self, old):
        return job_discipline(self, old)

    def exc_KeyError_unknown_target(self, identifier, old):
        return identifier != '' and identifier not in old.self.supvisors.mapper.instances


# ------------------------------------------------------------------------------------------ clause 4: lost instances
def groups_not_flight(j):
    """shape validity (same as c03.groups_are_not_the_flight_list): current_jobs is the list created by __init__, planned
    groups are other list objects"""
    return forall(int, lambda s: implies(s in j.planned_jobs, j.planned_jobs[s] is not j.current_jobs))


# duplicate_free(l) (engine predicate) is used as shape validity of an in-flight list: a command object is created once
# (store_application / stop_process / start_process), sits in one planned group and is appended once by
# ApplicationJobs.next when its group is popped


def pending_process(j_old, p):
    """a command for process p was in flight (requested, not yet completed) on entry"""
    return exists(j_old.current_jobs, lambda c: c.process is p)


def planned_process(j, p):
    """a command for process p is still to be triggered by the job j"""
    return exists(int, lambda s: s in j.planned_jobs and exists(j.planned_jobs[s], lambda c: c.process is p))


def wipes_plan(p):
    """C03: 'After a required process fails to start ... ABORT and STOP request nothing further for that application'"""
    return p.rules.required and p.rules.starting_failure_strategy in (StartingFailureStrategies.ABORT,
                                                                        StartingFailureStrategies.STOP)


def asks_stop(p):
    """C03: '(STOP then stops it once in-flight starts end)'"""
    return p.rules.required and p.rules.starting_failure_strategy == StartingFailureStrategies.STOP


@contract('commander:ApplicationJobs.on_instances_invalidation', props=['C10', 'C03', 'C06', 'C16'])
class JobsOnInstancesInvalidation:
    """C10: 'if ... the target instance is lost, the job is abandoned ... and the sequence moves on': every command in
    flight whose target is an invalidated identifier leaves the in-flight list - all of them -, the others stay.
    C03: 'has been given up (failed, timed out, host lost) ... After a required process fails to start,
    starting_failure_strategy is honoured: ABORT and STOP request nothing further for that application (STOP then stops
    it once in-flight starts end), CONTINUE proceeds': for a start job every dropped command is a starting failure,
    whatever the state of its process.
    C06: 'a process that already has a start or stop job planned is left to that job': the process of every command
    still planned on exit (a plan wiped by ABORT / STOP is no job) and of every command dropped here leaves
    failed_processes; a process only leaves failed_processes if this job had a command for it in flight or has one
    planned; nothing enters.  The remaining case - command in flight on a SURVIVING instance - is decided in
    contracts/c06_pending.py (refuted: finding C06-pending-on-survivor).
    C16: no exception escapes (raises = ())."""
    variants = ['ApplicationStartJobs', 'ApplicationStopJobs']
    raises = ()

    def modifies(self, invalidated_identifiers, failed_processes):
        return [contents(self.current_jobs), contents(failed_processes), field(self, 'planned_jobs'),
                field(self, 'stop_request')]

    def pre_shape(self):
        return groups_not_flight(self) and duplicate_free(self.current_jobs)

    def pre_lost_instances_list(self, invalidated_identifiers):
        """call sites (statemachine.py _common_next): the list of identifiers built by Context.invalidate_failed"""
        return invalidated_identifiers is not self.current_jobs

    # ---- C10
    def post_lost_targets_leave(self, invalidated_identifiers):
        return forall(self.current_jobs, lambda c: c.identifier not in invalidated_identifiers)

    def post_the_others_stay(self, invalidated_identifiers, old):
        return forall(old.self.current_jobs, lambda c: implies(c.identifier not in invalidated_identifiers,
                                                               c in self.current_jobs))

    def post_nothing_enters(self, old):
        return (self.current_jobs is old.self.current_jobs and duplicate_free(self.current_jobs)
                and forall(self.current_jobs, lambda c: c in old.self.current_jobs))

    # ---- C03
    def post_starting_failure_strategy(self, invalidated_identifiers, old):
        lost = lambda c: c.identifier in invalidated_identifiers
        wiped = isinstance(self, ApplicationStartJobs) and exists(old.self.current_jobs,
                                                                 lambda c: lost(c) and wipes_plan(c.process))
        return ite(wiped, len(self.planned_jobs) == 0, self.planned_jobs is old.self.planned_jobs)

    def post_stop_request(self, invalidated_identifiers, old):
        lost = lambda c: c.identifier in invalidated_identifiers
        return implies(isinstance(self, ApplicationStartJobs),
                       narrow(self, ApplicationStartJobs).stop_request == (
                           narrow(old.self, ApplicationStartJobs).stop_request
                           or exists(old.self.current_jobs, lambda c: lost(c) and asks_stop(c.process))))

    # ---- C06
    def post_planned_is_left_to_its_job(self, failed_processes, old):
        return forall(old.failed_processes, lambda p: implies(planned_process(self, p), p not in failed_processes))

    def post_dropped_is_a_starting_failure(self, invalidated_identifiers, failed_processes, old):
        """code comment: 'remove the process from failed_processes as this is a starting failure, not a running failure'"""
        return forall(old.self.current_jobs, lambda c: implies(c.identifier in invalidated_identifiers,
                                                               c.process not in failed_processes))

    def post_nothing_else_is_removed(self, failed_processes, old):
        return (forall(old.failed_processes, lambda p: implies(p not in failed_processes,
                                                               pending_process(old.self, p) or planned_process(self, p)))
                and forall(failed_processes, lambda p: p in old.failed_processes))

    # ---- loop 0: the in-flight commands (a copy is iterated)
    def loop0_modifies(self, invalidated_identifiers, failed_processes):
        return [contents(self.current_jobs), contents(failed_processes), field(self, 'planned_jobs'),
                field(self, 'stop_request')]

    def loop0_inv(self, k, seq, invalidated_identifiers, failed_processes, loop_old):
        lost = lambda c: c.identifier in invalidated_identifiers
        done = lambda f: exists(int, lambda j: 0 <= j and j < k and f(seq[j]))
        return (self.current_jobs is loop_old.self.current_jobs and seq == loop_old(self.current_jobs)
                and groups_not_flight(self) and duplicate_free(seq) and duplicate_free(self.current_jobs)
                and forall(self.current_jobs, lambda c: c in seq)
                and forall(int, lambda j: implies(0 <= j and j < len(seq) and seq[j] not in self.current_jobs,
                                                  j < k and lost(seq[j])))
                and forall(int, lambda j: implies(0 <= j and j < k and lost(seq[j]), seq[j] not in self.current_jobs))
                and ite(isinstance(self, ApplicationStartJobs) and done(lambda c: lost(c) and wipes_plan(c.process)),
                        len(self.planned_jobs) == 0, self.planned_jobs is loop_old.self.planned_jobs)
                and implies(isinstance(self, ApplicationStartJobs),
                            narrow(self, ApplicationStartJobs).stop_request == (
                                narrow(loop_old.self, ApplicationStartJobs).stop_request
                                or done(lambda c: lost(c) and asks_stop(c.process))))
                and forall(failed_processes, lambda p: p in loop_old.failed_processes)
                and forall(loop_old.failed_processes, lambda p: implies(
                    p not in failed_processes, done(lambda c: lost(c) and c.process is p)))
                and forall(int, lambda j: implies(0 <= j and j < k and lost(seq[j]),
                                                  seq[j].process not in failed_processes)))

    # ---- loop 1: the planned commands (sum(planned_jobs.values(), []): a fresh list of the members of the groups)
    def loop1_modifies(self, failed_processes):
        return [contents(failed_processes)]

    def loop1_inv(self, k, seq, failed_processes, loop_old):
        return (forall(failed_processes, lambda p: p in loop_old.failed_processes)
                and forall(loop_old.failed_processes, lambda p: implies(
                    p not in failed_processes, exists(int, lambda j: 0 <= j and j < k and seq[j].process is p)))
                and forall(int, lambda j: implies(0 <= j and j < k, seq[j].process not in failed_processes)))
