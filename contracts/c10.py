"""C10 - Every start/stop job terminates in bounded ticks whatever gets lost."""
from pyvc.spec import *

GROUP = 'commander'   # contracts of one group use each other's contracts at call sites (pyvc/hooks.py contract_for_call)

STARTING_LIKE = (ProcessStates.BACKOFF, ProcessStates.STARTING)
STOPPED_LIKE = (ProcessStates.STOPPED, ProcessStates.EXITED, ProcessStates.FATAL, ProcessStates.UNKNOWN)


def target_info_known(cmd):
    """object invariant of a command sitting in current_jobs: the target knows the program, an instance is attached"""
    return (cmd.identifier is not None and cmd.identifier in cmd.process.info_map
            and 'state' in cmd.process.info_map[cmd.identifier]
            and 'event_time' in cmd.process.info_map[cmd.identifier]
            and cmd.instance_status is not None)


def start_timed_out_result(c):
    """statement: TIMED_OUT iff the STARTING acknowledgement is not seen within the tick margin, or RUNNING within that
    margin plus startsecs; RUNNING is SUCCESS unless an exit is awaited (documented exception: IN_PROGRESS unbounded)"""
    st = c.process.info_map[c.identifier]['state']
    seq = c.instance_status.times.remote_sequence_counter
    late = seq > c.request_sequence_counter + (c._wait_ticks if st in STARTING_LIKE else c.minimum_ticks)
    return ite(st == ProcessStates.RUNNING,
               ite(c.process.rules.wait_exit and not c.ignore_wait_exit, ProcessRequestResult.IN_PROGRESS, ProcessRequestResult.SUCCESS),
               ite(late, ProcessRequestResult.TIMED_OUT, ProcessRequestResult.IN_PROGRESS))


def stop_timed_out_result(c):
    st = c.process.info_map[c.identifier]['state']
    seq = c.instance_status.times.remote_sequence_counter
    late = seq > c.request_sequence_counter + (c._wait_ticks if st == ProcessStates.STOPPING else c.minimum_ticks)
    return ite(st in STOPPED_LIKE, ProcessRequestResult.SUCCESS,
               ite(late, ProcessRequestResult.TIMED_OUT, ProcessRequestResult.IN_PROGRESS))


def timed_out_result(c):
    return ite(isinstance(c, ProcessStartCommand), start_timed_out_result(c), stop_timed_out_result(c))


@contract('commander:ProcessCommand.timed_out', props=[])
class AbstractTimedOut:
    """abstract method (the body raises NotImplementedError; ProcessCommand itself is never instantiated): used where the
    call is dispatched dynamically (ApplicationJobs.check).  Each override is PROVED against the same formula:
    StartTimedOut.post_matches_abstract / StopTimedOut.post_matches_abstract."""
    assumed = True
    raises = ()
    returns = 'Tuple[ProcessStates, ProcessRequestResult, float]'

    def modifies(self):
        return []

    def pre_target(self):
        return target_info_known(self)

    def post_result(self, result):
        return result[1] == timed_out_result(self) and result[2] == self.process.info_map[self.identifier]['event_time']


@contract('commander:ProcessStartCommand.timed_out', props=['C10', 'C03'])
class StartTimedOut:
    """statement: 'if the expected STARTING acknowledgement is not seen within the tick margin, or RUNNING within that
    margin plus the program's startsecs ... the job is abandoned'; 'the only documented exception is a wait_exit
    program that never exits'"""
    raises = ()

    def modifies(self):
        return []

    def pre_target(self):
        return target_info_known(self)

    def post_timed_out_iff(self, result):
        info = self.process.info_map[self.identifier]
        st = info['state']
        seq = self.instance_status.times.remote_sequence_counter
        waiting_running = st in STARTING_LIKE
        waiting_starting = st != ProcessStates.RUNNING and st not in STARTING_LIKE
        return (result[1] == ProcessRequestResult.TIMED_OUT) == (
            (waiting_running and seq > self.request_sequence_counter + self._wait_ticks)
            or (waiting_starting and seq > self.request_sequence_counter + self.minimum_ticks))

    def post_matches_abstract(self, result):
        return result[1] == start_timed_out_result(self)

    def post_running(self, result):
        info = self.process.info_map[self.identifier]
        wait = self.process.rules.wait_exit and not self.ignore_wait_exit
        return implies(info['state'] == ProcessStates.RUNNING,
                       result[1] == (ProcessRequestResult.IN_PROGRESS if wait else ProcessRequestResult.SUCCESS))

    def post_otherwise_in_progress(self, result):
        info = self.process.info_map[self.identifier]
        return implies(info['state'] != ProcessStates.RUNNING,
                       result[1] == ProcessRequestResult.TIMED_OUT or result[1] == ProcessRequestResult.IN_PROGRESS)

    def post_expected_state(self, result):
        st = self.process.info_map[self.identifier]['state']
        return result[0] == (ProcessStates.EXITED if st == ProcessStates.RUNNING and result[1] == ProcessRequestResult.IN_PROGRESS
                             else ProcessStates.RUNNING if (st == ProcessStates.RUNNING or st in STARTING_LIKE)
                             else ProcessStates.STARTING)

    def post_event_time(self, result):
        return result[2] == self.process.info_map[self.identifier]['event_time']


@contract('commander:ProcessStopCommand.timed_out', props=['C10', 'C09'])
class StopTimedOut:
    """statement: 'if the expected STOPPING acknowledgement is not seen within the tick margin, or STOPPED within that
    margin plus the program's stopwaitsecs ... the job is abandoned'"""
    raises = ()

    def modifies(self):
        return []

    def pre_target(self):
        return target_info_known(self)

    def post_timed_out_iff(self, result):
        st = self.process.info_map[self.identifier]['state']
        seq = self.instance_status.times.remote_sequence_counter
        return (result[1] == ProcessRequestResult.TIMED_OUT) == (
            (st == ProcessStates.STOPPING and seq > self.request_sequence_counter + self._wait_ticks)
            or (st != ProcessStates.STOPPING and st not in STOPPED_LIKE
                and seq > self.request_sequence_counter + self.minimum_ticks))

    def post_matches_abstract(self, result):
        return result[1] == stop_timed_out_result(self)

    def post_already_stopped(self, result):
        st = self.process.info_map[self.identifier]['state']
        return implies(st in STOPPED_LIKE, result[1] == ProcessRequestResult.SUCCESS and result[0] == st)

    def post_otherwise_in_progress(self, result):
        st = self.process.info_map[self.identifier]['state']
        return implies(st not in STOPPED_LIKE,
                       (result[1] == ProcessRequestResult.TIMED_OUT or result[1] == ProcessRequestResult.IN_PROGRESS)
                       and result[0] == (ProcessStates.STOPPED if st == ProcessStates.STOPPING else ProcessStates.STOPPING))

    def post_event_time(self, result):
        return result[2] == self.process.info_map[self.identifier]['event_time']


# ------------------------------------------------------------------------------------------ clause 3: forced state
from contracts.assumed_repo import (reentrancy_discipline, job_discipline, reports_untouched, in_plan,
                                    other_command_lists_untouched)


def forced_payload(payload, process, identifier, event_time, forced_state, reason):
    return ('forced' in payload and payload['forced'] and payload['state'] == forced_state
            and payload['spawnerr'] == reason and payload['identifier'] == identifier
            and payload['now_monotonic'] == event_time and payload['group'] == process.application_name
            and payload['name'] == process.process_name and not payload['expected'])


@contract('listener:SupervisorListener.force_process_state', props=['C10'])
class ForceProcessState:
    """statement: 'the job is abandoned, the process is reported FATAL (start) or STOPPED (stop) with an explanatory
    reason on all instances': the payload carries `forced`, the forced state, the reason, the target identifier and the
    time of the last event received; it is applied locally (fsm) and then published to the other instances.
    RE-ENTRANT: see the assumed contract of FiniteStateMachine.on_process_state_event."""
    raises = ('KeyError',)
    effect = 'force_process_state'
    types = {'forced_state': 'ProcessStates'}

    def pre_local_status_exists(self):
        """shape validity (DESIGN 1.4): the local identifier is a key of context.instances"""
        return self.supvisors.context.local_identifier in self.supvisors.context.instances

    def post_effect_applied_locally_then_published(self, process, identifier, event_time, forced_state, reason, old):
        local = effect_at('fsm.on_process_state_event', 0)
        sent = effect_at('send_process_state_event', 0)
        once = count_effects('fsm.on_process_state_event') == 1 and count_effects('send_process_state_event') == 1
        return (local[0] is old.self.supvisors.context.local_status
                and forced_payload(local[1], old.process, identifier, event_time, forced_state, reason)
                and forced_payload(sent[0], old.process, identifier, event_time, forced_state, reason)) if once else False

    def post_discipline(self, old):
        return reentrancy_discipline(old)

    def exc_KeyError_effect_none(self):
        return no_effect()

    def exc_KeyError_unknown_target(self, identifier, old):
        """only when the target identifier is not (or no longer) known to the mapper; nothing is emitted then"""
        return identifier != '' and identifier not in old.self.supvisors.mapper.instances


@contract('commander:ApplicationJobs.fail_command', props=['C10', 'C03', 'C09'])
class FailCommand:
    """statement: 'the process is reported FATAL (start) or STOPPED (stop) with an explanatory reason': exactly one
    listener.force_process_state(process, identifier, event_time, FATAL | STOPPED, reason).
    RE-ENTRANT call-out: as seen from the job, job_discipline(self) and reports_untouched hold afterwards."""
    variants = ['ApplicationStartJobs', 'ApplicationStopJobs']
    raises = ('KeyError',)
    effect = 'fail_command'

    def pre_root(self):
        """shape validity: one Supvisors root, whose local identifier is a key of context.instances"""
        return (self.supvisors.listener.supvisors is self.supvisors
                and self.supvisors.context.local_identifier in self.supvisors.context.instances)

    def post_effect_forced_state(self, process, identifier, event_time, reason, old):
        e = effect_at('force_process_state', 0)
        expected = ProcessStates.FATAL if isinstance(self, ApplicationStartJobs) else ProcessStates.STOPPED
        return (e[0] is process and e[1] == identifier and e[2] == event_time and e[3] == expected
                and e[4] == reason) if count_effects('force_process_state') == 1 else False

    def post_discipline(self, old):
        return job_discipline(self, old)

    def exc_KeyError_unknown_target(self, identifier, old):
        return identifier != '' and identifier not in old.self.supvisors.mapper.instances
