"""C19 - Start predictions are side-effect free (clause 1, the event pump of the model): StarterModel.feed_model.

Control-flow / frame facet in its OWN group: the acknowledgement `self.on_event(process, identifier)` (Commander.on_event,
owned by C10) is abstracted by the file-local ASSUMED contract below (it may start further MODEL commands, whose `start`
appends events naming their mock - contracts/c19_model.py - and it does not write a live status).  What is PROVED here is
the part of the statement that feed_model itself is responsible for: its own writes (`process._state = state`,
`process.info_map[identifier]['state'] = state`) go to the processes named by the events of the model, which are mocks,
never to a live ProcessStatus or to one of its per-instance records, and it sends no request.

`mock(p)` is a ghost predicate (an otherwise unconstrained function symbol): p was allocated by
ProcessStartCommandModel.__init__ (contracts/c19.py post_mock_is_a_fresh_object / post_mock_payloads_are_fresh)."""
from pyvc.spec import *

GROUP = 'process_feed'   # own group: the abstraction of Commander.on_event below must not be seen by any other proof


def mock(p):
    return uf('c19_mock', bool, p)


def events_name_mocks(m):
    """every pending event of the model names a mock, on an instance this mock has information from
    (ProcessStartCommandModel.start: `(self.process, self.identifier, ...)`, the instance chosen among those of the
    process - C04)"""
    return forall(int, lambda j: implies(0 <= j and j < len(m.event_list),
                                         mock(m.event_list[j][0]) and m.event_list[j][1] in m.event_list[j][0].info_map))


def live_separated():
    """contracts/c19.py post_mock_payloads_are_fresh: a mock shares no per-instance record with a live process"""
    return forall(ProcessStatus, ProcessStatus, str, str, lambda p, q, i, j: implies(
        mock(p) and not mock(q) and i in p.info_map and j in q.info_map, p.info_map[i] is not q.info_map[j]))


def live_untouched(old):
    """'leave every status Supvisors reports (process states and per-instance information ...) exactly as it was'"""
    return forall(ProcessStatus, str, lambda q, j: implies(
        not mock(q) and not was_fresh(q),
        q._state == at(old, q)._state and q.info_map is at(old, q).info_map
        and (j in q.info_map) == (j in at(old, q).info_map)
        and implies(j in q.info_map, q.info_map[j] is at(old, q).info_map[j]
                    and q.info_map[j]['state'] == at(old, q).info_map[j]['state'])))


@contract('commander:Commander.on_event', props=[])
class ModelOnEventAbstraction:
    """ASSUMED (file-local): the acknowledgement of a model event by the StarterModel only reaches model objects"""
    assumed = True
    raises = ()
    effect = 'commander_on_event'

    def modifies(self, process, identifier):
        return [everything_but('F:event_list:')]

    def post_events(self):
        return self.event_list is not None and events_name_mocks(self) and live_separated()

    def post_live(self, old):
        return live_untouched(old)


@contract('commander:StarterModel.feed_model', props=['C19'])
class FeedModel:
    """statement: 'test_start_application and test_start_process only predict: they send no request and leave every
    status Supvisors reports (process states and per-instance information ...) exactly as it was'"""
    raises = ()
    returns = 'List[Payload]'

    def pre_model_running(self):
        """test_start_application / test_start_processes: `self.event_list = []`, `self.process_list = []`"""
        return self.event_list is not None and self.process_list is not None

    def pre_events(self):
        return events_name_mocks(self) and live_separated()

    def post_live_untouched(self, old):
        return live_untouched(old)

    def post_effect_sends_no_request(self):
        return no_effect('send_start_process') and no_effect('send_stop_process')

    def loop0_inv(self, old):
        return (self.event_list is not None and self.process_list is not None and events_name_mocks(self)
                and live_separated() and live_untouched(old))

    def loop0_effects():
        return ('commander_on_event',)
