"""C19 - Start predictions are side-effect free and match a real start (clause 1 only: a frame condition).

Clause 2 (the prediction equals the placement of a real start) is a relational property of two executions on cloned
clusters: not decided by contracts on single calls.  What is decided here is the isolation of the model objects the
prediction works on: every object a model command can write through (`command.process`, its `info_map`, the payload
records of that map) is allocated by the constructor of the model command, so that the writes of StarterModel.feed_model
(`process._state = ...`, `process.info_map[identifier]['state'] = ...`) and of ProcessStartCommandModel.start
(`process.running_identifiers.add`) cannot reach a live status."""
from pyvc.spec import *

GROUP = 'process'


@contract('commander:ProcessStartCommandModel.__init__', props=['C19'])
class ModelCommandInit:
    """statement: 'test_start_application and test_start_process only predict: they ... leave every status Supvisors
    reports (process states and per-instance information, ...) exactly as it was'"""
    raises = ()
    exact = True

    def modifies(self):
        return [field(self, 'process'), field(self, 'identifier'), field(self, 'instance_status'),
                field(self, 'request_sequence_counter'), field(self, 'minimum_ticks'), field(self, '_wait_ticks'),
                field(self, 'strategy'), field(self, 'ignore_wait_exit'), field(self, 'extra_args')]

    def pre_live_process(self, process):
        return I11(process) and process is not self

    def post_mock_is_a_fresh_object(self, process):
        return was_fresh(self.process) and self.process is not process

    def post_mock_containers_are_fresh(self):
        return was_fresh(self.process.info_map) and was_fresh(self.process.running_identifiers)

    def post_mock_payloads_are_fresh(self):
        """the per-instance information the model will overwrite is NOT the live one"""
        return forall(str, lambda i: implies(i in self.process.info_map, was_fresh(self.process.info_map[i])))

    def post_same_situation(self, process):
        """the model starts from the situation of the live process: same synthetic state, information from the same
        instances"""
        return (self.process._state == process._state
                and forall(str, lambda i: (i in self.process.info_map) == (i in process.info_map)))

    def post_live_process_untouched(self, process, old):
        return (process._state == old.process._state and process.info_map is old.process.info_map
                and process.running_identifiers is old.process.running_identifiers)
