"""C12 - All instances agree on where processes run, and that view is true.

Agreement of N replicated databases over all delivery schedules is NOT decidable by contracts on single calls
(DESIGN 2/C12, level `other`).  What is decided here is the mechanism, as closed lemmas over the vocabulary and the
postconditions of contracts/c11.py (helper predicates of c11.py are used by name):

* two instances that hold the same last report from every instance show the same set of running instances and the
  same running state (agreement_from_same_reports) - the statement's quiescence clause for one process;
* feeding the same report as an event (update_info) or as a handshake snapshot (add_info) to equal views yields equal
  views (snapshot_event_commutation).
"""
from pyvc.spec import *

GROUP = 'process'   # contracts of one group use each other's contracts at call sites (pyvc/hooks.py contract_for_call)


def same_reports(p, q):
    """same last report from every instance (what 'all pending messages have been delivered' gives two instances)"""
    return forall(str, lambda i: (i in p.info_map) == (i in q.info_map)
                  and implies(i in p.info_map,
                              p.info_map[i]['state'] == q.info_map[i]['state']
                              and p.info_map[i]['expected'] == q.info_map[i]['expected']))


def same_listing(p, q):
    return forall(str, lambda i: (i in p.running_identifiers) == (i in q.running_identifiers))


def runs_somewhere(p):
    return exists(str, lambda i: i in p.running_identifiers)


def agreed_display(p, q):
    """'the same running state ... whether a process is stopped or running is agreed as well. Which of several
    stopped-like states is displayed may differ'"""
    return ((p._state in S) == (q._state in S)) and implies(p._state not in S, p._state == q._state)


@lemma(props=['C12'], types={'p': 'ProcessStatus', 'q': 'ProcessStatus'})
def agreement_from_same_reports(p, q):
    """statement: 'when all pending messages have been delivered ... every instance reports for every process the same
    set of instances where it runs and the same running state'"""
    assume(p is not q and I11_nonempty(p) and I11_nonempty(q))
    assume(same_reports(p, q))
    return same_listing(p, q) and agreed_display(p, q)


@lemma(props=['C12'], types={'p': 'ProcessStatus', 'q': 'ProcessStatus'})
def agreement_from_same_reports_without_stopping(p, q):
    """the same, when no instance's last report is STOPPING (the transient state during which the listing depends on
    whether the instance was seen running before)"""
    assume(p is not q and I11_nonempty(p) and I11_nonempty(q))
    assume(same_reports(p, q))
    assume(forall(str, lambda i: implies(i in p.info_map, p.info_map[i]['state'] != ProcessStates.STOPPING)))
    return same_listing(p, q) and agreed_display(p, q)


@lemma(props=['C12'], types={'p0': 'ProcessStatus', 'p1': 'ProcessStatus', 'q0': 'ProcessStatus', 'q1': 'ProcessStatus',
                             'i': 'str', 's': 'ProcessStates'})
def snapshot_event_commutation(p0, p1, q0, q1, i, s):
    """p1 = p0 after the EVENT (i, s) [postconditions of update_info], q1 = q0 after the SNAPSHOT (i, s) [postconditions
    of add_info]: equal views before give equal views after"""
    assume(same_reports(p0, q0) and same_listing(p0, q0))
    assume(I11_nonempty(p1) and listing_transition(p1, p0, i, s) and i in p1.info_map and p1.info_map[i]['state'] == s)
    assume(I11_nonempty(q1) and listing_transition(q1, q0, i, s) and i in q1.info_map and q1.info_map[i]['state'] == s)
    assume(forall(str, lambda j: implies(j != i, (j in p1.info_map) == (j in p0.info_map)
                                         and implies(j in p1.info_map, p1.info_map[j]['state'] == p0.info_map[j]['state']))))
    assume(forall(str, lambda j: implies(j != i, (j in q1.info_map) == (j in q0.info_map)
                                         and implies(j in q1.info_map, q1.info_map[j]['state'] == q0.info_map[j]['state']))))
    return same_listing(p1, q1) and agreed_display(p1, q1)
