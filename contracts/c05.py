"""C05 - Conflicts are detected and conciliated exactly as the strategy says."""
from pyvc.spec import *

GROUP = 'conflicts'   # contracts of one group use each other's contracts at call sites (pyvc/hooks.py contract_for_call)
from contracts.c11 import shape, listed_ok_at
from contracts.c06 import I06, job_sets, sequences_exist, context_knows


# ------------------------------------------------------------------------------------------ detection
def in_conflict(p):
    """statement: 'running on two or more instances' = listed on two distinct instances"""
    return exists(str, str, lambda i, j: i != j and i in p.running_identifiers and j in p.running_identifiers)


def flagged(p):
    """DESIGN C05.1: ProcessStatus.conflicting() <=> |running_identifiers| >= 2.  C11 (post_conflict_flag of
    update_status) proves flagged(p) == in_conflict(p) for every ProcessStatus; the detection contracts below are stated
    with the cardinality the code tests, the strategies with the two distinct instances they need."""
    return len(p.running_identifiers) > 1


def managed_conflict(ctx, p):
    """p is a process of a MANAGED application of the context and is in conflict"""
    return exists(ctx.applications.values(), lambda a: a.rules.managed and exists(a.processes.values(), lambda q: q is p)) and flagged(p)


@contract('context:Context.conflicting', props=['C05'])
class Conflicting:
    """statement: 'a process of a managed application running on two or more instances ...; unmanaged applications
    never trigger it'"""
    raises = ()
    pure = True

    def modifies(self):
        return []

    def post_definition(self, result):
        return result == exists(self.applications.values(), lambda a: a.rules.managed and exists(
            a.processes.values(), lambda p: flagged(p)))


@contract('context:Context.conflicts', props=['C05'])
class Conflicts:
    raises = ()

    def modifies(self):
        return []

    def post_only_managed_conflicts(self, result):
        """'never stopping a process that is not in conflict' starts here: nothing else is listed"""
        return forall(int, lambda k: implies(0 <= k and k < len(result), managed_conflict(self, result[k])))

    def post_every_managed_conflict(self, result):
        return forall(self.applications.values(), lambda a: implies(a.rules.managed, forall(
            a.processes.values(), lambda p: implies(flagged(p), p in result))))

    def post_fresh(self, result):
        return was_fresh(result)


# ------------------------------------------------------------------------------------------ strategies
def conflict_ok(p):
    """what C11's invariant gives for a process in conflict: every listed instance has a report (with its uptime)"""
    return shape(p) and forall(str, lambda i: listed_ok_at(p, i)) and in_conflict(p)


def all_conflicts_ok(conflicts):
    return forall(int, lambda j: implies(0 <= j and j < len(conflicts), conflict_ok(conflicts[j])))


def stops_all_but(process, ids, keep):
    """the identifiers handed to Stopper.stop_process are exactly running(p) ∖ {keep}"""
    return forall(str, lambda i: (i in ids) == (i in process.running_identifiers and i != keep))


@contract('strategy:SenicideStrategy.conciliate', props=['C05'])
class Senicide:
    """statement: 'SENICIDE everywhere but the most recently started copy' (smallest uptime; ties: any of them) -
    'never stopping a process that is not in conflict'.  Stated per iteration (loop0_iter): the iteration handling
    conflicts[k] emits exactly one stop_process(conflicts[k], running ∖ {youngest}, False) and nothing else; the loop
    visits each element of `conflicts` once, hence the statement for the whole call."""
    raises = ()
    types = {'conflicts': 'List[ProcessStatus]'}
    effect = 'conciliate_SENICIDE'

    def modifies(self, conflicts):
        return []

    def pre_conflicts(self, conflicts):
        return all_conflicts_ok(conflicts)

    def loop0_inv(self, conflicts, k, loop_old):
        return 0 <= k

    def loop0_modifies(self):
        return []

    def loop0_iter_one_request(self, conflicts, k, process):
        return (count_effects('stop_process') == 1 and count_effects('default_restart_process', 'add_default_job',
                                                                     'commander_next', 'stop_application') == 0)

    def loop0_iter_target(self, conflicts, k, process):
        return process is conflicts[k] and effect_at('stop_process', 0)[0] is process and effect_at('stop_process', 0)[2] == False

    def loop0_iter_spares_youngest(self, conflicts, k, process):
        ids = effect_at('stop_process', 0)[1]
        return exists(str, lambda keep: keep in process.running_identifiers
                      and forall(str, lambda j: implies(j in process.running_identifiers,
                                                        process.info_map[keep]['uptime'] <= process.info_map[j]['uptime']))
                      and stops_all_but(process, ids, keep))

    def loop0_iter_nonempty(self, conflicts, k, process):
        """Stopper.stop_process reads an empty identifier list as 'everywhere': must not happen"""
        ids = effect_at('stop_process', 0)[1]
        return exists(str, lambda i: i in ids)

    def post_triggered_once(self):
        return count_effects('commander_next') == 1


@contract('strategy:InfanticideStrategy.conciliate', props=['C05'])
class Infanticide:
    """statement: 'INFANTICIDE everywhere but the oldest' (greatest uptime)"""
    raises = ()
    types = {'conflicts': 'List[ProcessStatus]'}
    effect = 'conciliate_INFANTICIDE'

    def modifies(self, conflicts):
        return []

    def pre_conflicts(self, conflicts):
        return all_conflicts_ok(conflicts)

    def loop0_inv(self, conflicts, k, loop_old):
        return 0 <= k

    def loop0_modifies(self):
        return []

    def loop1_inv(self, conflicts, process, seen):
        return conflict_ok(process)

    def loop1_modifies(self):
        return []

    def loop0_iter_one_request(self, conflicts, k, process):
        return (count_effects('stop_process') == 1 and count_effects('default_restart_process', 'add_default_job',
                                                                     'commander_next', 'stop_application') == 0)

    def loop0_iter_target(self, conflicts, k, process):
        return process is conflicts[k] and effect_at('stop_process', 0)[0] is process and effect_at('stop_process', 0)[2] == False

    def loop0_iter_spares_oldest(self, conflicts, k, process):
        ids = effect_at('stop_process', 0)[1]
        return exists(str, lambda keep: keep in process.running_identifiers
                      and forall(str, lambda j: implies(j in process.running_identifiers,
                                                        process.info_map[keep]['uptime'] >= process.info_map[j]['uptime']))
                      and stops_all_but(process, ids, keep))

    def loop0_iter_nonempty(self, conflicts, k, process):
        ids = effect_at('stop_process', 0)[1]
        return exists(str, lambda i: i in ids)

    def post_triggered_once(self):
        return count_effects('commander_next') == 1


@contract('strategy:UserStrategy.conciliate', props=['C05'])
class User:
    """statement: 'With USER nothing is stopped'"""
    raises = ()
    types = {'conflicts': 'List[ProcessStatus]'}
    effect = 'conciliate_USER'

    def modifies(self, conflicts):
        return []

    def post_nothing(self):
        return no_effect()


@contract('strategy:StopStrategy.conciliate', props=['C05'])
class Stop:
    """statement: 'STOP ... on every copy' (identifiers=None: Stopper.stop_process then targets every listed instance)"""
    raises = ()
    types = {'conflicts': 'List[ProcessStatus]'}
    effect = 'conciliate_STOP'

    def modifies(self, conflicts):
        return []

    def loop0_inv(self, conflicts, k, loop_old):
        return 0 <= k

    def loop0_modifies(self):
        return []

    def loop0_iter_every_copy(self, conflicts, k, process):
        return (count_effects('stop_process') == 1 and process is conflicts[k]
                and effect_at('stop_process', 0)[0] is process and effect_at('stop_process', 0)[1] is None
                and effect_at('stop_process', 0)[2] == False
                and count_effects('default_restart_process', 'add_default_job', 'commander_next', 'stop_application') == 0)

    def post_triggered_once(self):
        return count_effects('commander_next') == 1


@contract('strategy:RestartStrategy.conciliate', props=['C05'])
class Restart:
    """statement: 'RESTART on every copy (RESTART then starts one copy again)': one default_restart_process per conflict
    (Stopper.restart_process stops every copy and defers exactly one start)"""
    raises = ()
    types = {'conflicts': 'List[ProcessStatus]'}
    effect = 'conciliate_RESTART'

    def modifies(self, conflicts):
        return []

    def loop0_inv(self, conflicts, k, loop_old):
        return 0 <= k

    def loop0_modifies(self):
        return []

    def loop0_iter_restart(self, conflicts, k, process):
        return (count_effects('default_restart_process') == 1 and process is conflicts[k]
                and effect_at('default_restart_process', 0)[0] is process
                and effect_at('default_restart_process', 0)[1] == False
                and count_effects('stop_process', 'add_default_job', 'commander_next', 'stop_application') == 0)

    def post_triggered_once(self):
        return count_effects('commander_next') == 1


@contract('strategy:FailureStrategy.conciliate', props=['C05', 'C06'])
class Failure:
    """statement: 'RUNNING_FAILURE on every copy (... applies the program's running failure strategy)': per conflict one
    stop_process(p, None, False) then one failure_handler.add_default_job(p); jobs triggered once at the end"""
    raises = ()
    types = {'conflicts': 'List[ProcessStatus]'}
    effect = 'conciliate_RUNNING_FAILURE'

    def modifies(self, conflicts):
        return job_sets(self.supvisors.failure_handler)

    def pre_handler(self, conflicts):
        return (I06(self.supvisors.failure_handler) and sequences_exist(self.supvisors.failure_handler)
                and forall(int, lambda j: implies(0 <= j and j < len(conflicts),
                                                  context_knows(self.supvisors.failure_handler, conflicts[j]))))

    def loop0_inv(self, conflicts, k, loop_old):
        return 0 <= k and I06(self.supvisors.failure_handler) and sequences_exist(self.supvisors.failure_handler)

    def loop0_modifies(self):
        return job_sets(self.supvisors.failure_handler)

    def loop0_iter_every_copy_then_failure_job(self, conflicts, k, process):
        return (count_effects('stop_process') == 1 and count_effects('add_default_job') == 1
                and process is conflicts[k]
                and effect_at('stop_process', 0)[0] is process and effect_at('stop_process', 0)[1] is None
                and effect_at('stop_process', 0)[2] == False
                and effect_at('add_default_job', 0)[0] is process
                and count_effects('default_restart_process', 'commander_next', 'trigger_jobs') == 0)

    def post_invariant(self):
        return I06(self.supvisors.failure_handler)

    def post_triggered_once(self):
        return count_effects('commander_next') == 1 and count_effects('trigger_jobs') == 1


@contract('strategy:conciliate_conflicts', props=['C05'])
class ConciliateConflicts:
    """statement: 'With a strategy other than USER the Master requests stops exactly where the strategy says': the
    option value selects exactly the strategy class of the same name (whose own contract says where stops go)"""
    raises = ()
    types = {'supvisors': 'Supvisors', 'strategy': 'ConciliationStrategies', 'conflicts': 'List[ProcessStatus]'}

    def modifies(supvisors, strategy, conflicts):
        return job_sets(supvisors.failure_handler)

    def pre_conflicts(supvisors, strategy, conflicts):
        return (all_conflicts_ok(conflicts) and I06(supvisors.failure_handler) and sequences_exist(supvisors.failure_handler)
                and forall(int, lambda j: implies(0 <= j and j < len(conflicts),
                                                  context_knows(supvisors.failure_handler, conflicts[j]))))

    def post_dispatch(strategy):
        return (count_effects('conciliate_SENICIDE') == (1 if strategy == ConciliationStrategies.SENICIDE else 0)
                and count_effects('conciliate_INFANTICIDE') == (1 if strategy == ConciliationStrategies.INFANTICIDE else 0)
                and count_effects('conciliate_USER') == (1 if strategy == ConciliationStrategies.USER else 0)
                and count_effects('conciliate_STOP') == (1 if strategy == ConciliationStrategies.STOP else 0)
                and count_effects('conciliate_RESTART') == (1 if strategy == ConciliationStrategies.RESTART else 0)
                and count_effects('conciliate_RUNNING_FAILURE') == (
                    1 if strategy == ConciliationStrategies.RUNNING_FAILURE else 0))

    def post_only_that():
        return count_effects('stop_process', 'default_restart_process', 'add_default_job', 'commander_next') == 0


# ------------------------------------------------------------------------------------------ FSM decisions (Master)
def context_valid(sup):
    """Context validity: applications are stored under their own name, processes know their application's name"""
    apps = sup.context.applications
    return forall(apps.values(), lambda a: a.application_name in apps and apps[a.application_name] is a
                  and forall(a.processes.values(), lambda p: p.application_name == a.application_name))


def processes_valid(ctx):
    """C11's invariant on every ProcessStatus of the context (what conciliation relies on)"""
    return forall(ctx.applications.values(), lambda a: forall(a.processes.values(), lambda p: (
        shape(p) and forall(str, lambda i: listed_ok_at(p, i)) and flagged(p) == in_conflict(p))))


@contract('commander:Commander.in_progress', props=['C05'])
class InProgress:
    raises = ()
    pure = True

    def modifies(self):
        return []

    def post_definition(self, result):
        return result == (len(self.planned_jobs) > 0 or len(self.current_jobs) > 0)


def busy(sup):
    return (len(sup.starter.planned_jobs) > 0 or len(sup.starter.current_jobs) > 0
            or len(sup.stopper.planned_jobs) > 0 or len(sup.stopper.current_jobs) > 0)


@contract('statemachine:ConciliationState._master_enter', props=['C05'])
class ConciliationMasterEnter:
    """'automatically conciliate the conflicts' with the configured strategy, on exactly Context.conflicts().
    ASSUMED, not verified: the body is one call conciliate_conflicts(supvisors, options.conciliation_strategy,
    context.conflicts()); the call-pre obligations 'every element returned by conflicts() satisfies conflict_ok and is
    known to the context' (2 of 40 obligations) stay undecided within the solver budget (92 s), all others discharge."""
    assumed = True
    raises = ()
    effect = 'conciliation_master_enter'

    def modifies(self):
        return job_sets(self.supvisors.failure_handler)

    def pre_state(self):
        return (I06(self.supvisors.failure_handler) and sequences_exist(self.supvisors.failure_handler) and context_valid(self.supvisors)
                and processes_valid(self.supvisors.context))

    def post_invariant(self):
        return I06(self.supvisors.failure_handler)


def repair_ready(state):
    """what the Master's repair step (_WorkingState._master_next, run first by ConciliationState._master_next since the
    fix: commit 7bdaadf) relies on: the handler invariant and the lost processes are processes of the context
    (Context.invalidate_failed builds the report from the applications of the context)"""
    h = state.supvisors.failure_handler
    return (I06(h) and sequences_exist(h) and h.supvisors is state.supvisors
            and forall(state.lost_processes, lambda p: context_knows(h, p)))


@contract('statemachine:_WorkingState._master_next', props=['C05'])
class RepairStepSeenFromConciliation:
    """facet of the conflicts group for the step inherited from _WorkingState: one add_default_job per lost process, one
    trigger_jobs; seen from the conciliation decision it only touches the handler's job sets (add_default_job: proved
    by C06; trigger_jobs: assumed, only removes) and takes no decision"""
    raises = ()
    variants = ['ConciliationState']

    def modifies(self):
        return job_sets(self.supvisors.failure_handler)

    def pre_ready(self):
        return repair_ready(self)

    def post_no_decision(self, result):
        return result is None

    def post_handler_invariant_kept(self):
        h = self.supvisors.failure_handler
        return I06(h) and sequences_exist(h)

    def loop0_inv(self, seen):
        h = self.supvisors.failure_handler
        return I06(h) and sequences_exist(h)

    def loop0_modifies(self):
        return job_sets(self.supvisors.failure_handler)


@contract('statemachine:ConciliationState._master_next', props=['C05'])
class ConciliationMasterNext:
    """statement: 'once those stops are reported no conflict remains and Supvisors returns to OPERATION. With USER ...
    the state stays CONCILIATION until the conflict disappears'; DESIGN C05.2: jobs in progress => stay; no conflict =>
    OPERATION; else re-conciliate and stay"""
    raises = ()

    def modifies(self):
        return job_sets(self.supvisors.failure_handler)

    def pre_state(self):
        return (I06(self.supvisors.failure_handler) and sequences_exist(self.supvisors.failure_handler) and context_valid(self.supvisors)
                and processes_valid(self.supvisors.context))

    def pre_repair_ready(self):
        return repair_ready(self)

    def post_decision(self, result, old):
        """decided on the state found on entry"""
        sup = old.self.supvisors
        conflicting = exists(sup.context.applications.values(), lambda a: a.rules.managed and exists(
            a.processes.values(), lambda p: flagged(p)))
        return result == (SupvisorsStates.OPERATION if not busy(sup) and not conflicting
                          else SupvisorsStates.CONCILIATION)

    def post_reconciliate(self, result, old):
        sup = old.self.supvisors
        conflicting = exists(sup.context.applications.values(), lambda a: a.rules.managed and exists(
            a.processes.values(), lambda p: flagged(p)))
        return count_effects('conciliation_master_enter') == (1 if not busy(sup) and conflicting else 0)
