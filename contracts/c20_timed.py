"""C20 - alignment / bound of the net_io, disk_io, disk_usage series: HostStatisticsInstance._push_timed_stats
(mechanism "obsolete/new interface handling").

Own group: the proofs of contracts/c20.py keep using their assumed frame contract of this helper; here its BODY is
verified (trunc_depth is used through its contract of contracts/c20.py).

Separation of the history lists.  The code relies on the lists reachable from the history dictionary being pairwise
distinct objects (`([uptime], [[v] for v in values])` builds new lists at the first sight of an entity, nothing else
ever stores a list there).  Pairwise distinctness of a family of objects is the existence of an injective labelling;
it is stated in that (linear instead of quadratic) form with two otherwise unconstrained function symbols:
`owner(l)` = the entity the list belongs to, `slot(l)` = -1 for its time series, i for its i-th value series,
-2 for a list of integrated values of the new sample, -3 for the list that holds the value series of an entity."""
from pyvc.spec import *

GROUP = 'statsmodel_timed'


def owner(l):
    return uf('c20_owner', str, l)


def slot(l):
    return uf('c20_slot', int, l)


def ent_aligned(r, a, depth):
    """'every history ... holds at most stats_histo points, the value series of one entity always have exactly as many
    points as their time series' for the entity (interface / device / partition) a of the history dictionary r"""
    return (len(r[a][0]) <= depth
            and forall(int, lambda i: implies(0 <= i and i < len(r[a][1]), len(r[a][1][i]) == len(r[a][0]))))


def ent_alloc(r, a):
    return (is_alloc(r[a][0]) and is_alloc(r[a][1])
            and forall(int, lambda i: implies(0 <= i and i < len(r[a][1]), is_alloc(r[a][1][i]))))


def ent_labelled(r, a):
    return (is_alloc(r[a][0]) and is_alloc(r[a][1]) and slot(r[a][1]) == -3 and owner(r[a][0]) == a and slot(r[a][0]) == -1
            and forall(int, lambda i: implies(0 <= i and i < len(r[a][1]),
                                              is_alloc(r[a][1][i]) and owner(r[a][1][i]) == a
                                              and slot(r[a][1][i]) == i)))


def is_history_list(r, l):
    """l is the time series or a value series of an entity of r"""
    return owner(l) in r and (l is r[owner(l)][0]
                              or (0 <= slot(l) and slot(l) < len(r[owner(l)][1]) and l is r[owner(l)][1][slot(l)]))


def capped(n, depth):
    """length of a history of n points after one more point was pushed and the history was cut to depth"""
    return ite(n + 1 <= depth, n + 1, depth)


@contract('statscompiler:HostStatisticsInstance._push_timed_stats', props=['C20'])
class PushTimedStatsBody:
    """'interfaces, disks and partitions appearing or vanishing ... every history kept per instance ... and period holds
    at most stats_histo points, the value series of one entity always have exactly as many points as their time
    series'"""
    raises = ()
    use_contracts = ['statscompiler:trunc_depth']
    types = {'destroy_list': 'List[str]'}

    def modifies(self, ref_stats, io_stats):
        """nothing else is modified"""
        return [contents(ref_stats), contents(io_stats),
                contents_where(lambda l: is_history_list(ref_stats, l), 'list')]

    def pre_depth(self):
        """options.to_histo: [10, 1500] (C18)"""
        return self.depth >= 1

    def pre_aligned(self, ref_stats):
        return forall(str, lambda a: implies(a in ref_stats, ent_aligned(ref_stats, a, self.depth)))

    def pre_separated(self, ref_stats, io_stats):
        return (forall(str, lambda a: implies(a in ref_stats, ent_labelled(ref_stats, a)))
                and forall(str, lambda c: implies(c in io_stats, is_alloc(io_stats[c]) and slot(io_stats[c]) == -2)))

    def pre_width(self, ref_stats, io_stats):
        """call sites: io_statistics gives 2 values per interface, integrate 1 value per partition, and an entity was
        created with one series per value"""
        return forall(str, lambda a: implies(a in ref_stats and a in io_stats,
                                             len(io_stats[a]) == len(ref_stats[a][1])))

    def pre_distinct(self, ref_stats, io_stats):
        """a dictionary of histories and a dictionary of integrated values"""
        return ref_stats is not io_stats

    def post_aligned(self, ref_stats):
        return forall(str, lambda a: implies(a in ref_stats, ent_aligned(ref_stats, a, self.depth)))

    def post_entities_of_the_sample(self, ref_stats, old):
        """vanishing: dropped; appearing: added"""
        return forall(str, lambda a: (a in ref_stats) == (a in old.io_stats))

    def post_kept_entity_one_more_point(self, ref_stats, old):
        """an entity of the new sample that was known keeps its series (the same list objects) with one more point,
        cut to depth"""
        return forall(str, lambda a: implies(
            a in old.ref_stats and a in old.io_stats,
            ref_stats[a][0] is old.ref_stats[a][0] and ref_stats[a][1] is old.ref_stats[a][1]
            and len(ref_stats[a][0]) == capped(len(old.ref_stats[a][0]), self.depth)))

    def post_appearing_entity(self, ref_stats, old):
        """first sight of an entity (code: `ref_stats[intf] = [uptime], [[v] for v in values]`): new lists, ONE point in
        the time series and in each of the value series, one value series per value of the sample"""
        return forall(str, lambda a: implies(
            a in old.io_stats and a not in old.ref_stats,
            was_fresh(ref_stats[a][0]) and was_fresh(ref_stats[a][1]) and len(ref_stats[a][0]) == 1
            and len(ref_stats[a][1]) == len(old.io_stats[a])
            and forall(int, lambda i: implies(0 <= i and i < len(ref_stats[a][1]),
                                              was_fresh(ref_stats[a][1][i]) and len(ref_stats[a][1][i]) == 1))))

    def post_values_consumed(self, io_stats, old):
        """the values of the known entities are popped from the dictionary of the sample"""
        return forall(str, lambda a: (a in io_stats) == (a in old.io_stats and a not in old.ref_stats))

    # ------------------------------------------------------------------ loop 0: entities already known
    def loop0_modifies(self, ref_stats, io_stats, destroy_list):
        return [contents(io_stats), contents(destroy_list),
                contents_where(lambda l: is_history_list(ref_stats, l), 'list')]

    def loop0_inv(self, seen, ref_stats, io_stats, destroy_list, old):
        return (forall(str, lambda a: implies(a in ref_stats, ent_aligned(ref_stats, a, self.depth)))
                and forall(str, lambda a: (a in io_stats) == (a in old.io_stats and a not in seen))
                and forall(str, lambda a: implies(a in io_stats, io_stats[a] is old.io_stats[a]))
                and forall(str, lambda a: (a in destroy_list) == (a in seen and a not in old.io_stats))
                and duplicate_free(destroy_list)
                and forall(str, lambda a: implies(a in ref_stats, len(ref_stats[a][0]) == ite(
                    a in seen and a in old.io_stats, capped(len(old.ref_stats[a][0]), self.depth),
                    len(old.ref_stats[a][0])))))

    # ------------------------------------------------------------------ loop 1: the value series of one entity
    def loop1_modifies(self, ref_bytes):
        return [contents_where(lambda l: 0 <= slot(l) and slot(l) < len(ref_bytes) and l is ref_bytes[slot(l)], 'list')]

    def loop1_inv(self, k, ref_bytes, uptimes, loop_old):
        return forall(int, lambda i: implies(0 <= i and i < len(ref_bytes),
                                             len(ref_bytes[i]) == ite(i < k, len(uptimes), len(loop_old.ref_bytes[i]))))

    # ------------------------------------------------------------------ loop 2: vanished entities
    def loop2_modifies(self, ref_stats):
        return [contents(ref_stats)]

    def loop2_inv(self, k, ref_stats, destroy_list, loop_old):
        return (duplicate_free(destroy_list)
                and forall(str, lambda a: (a in ref_stats) == (a in loop_old.ref_stats and not exists(
                    int, lambda j: 0 <= j and j < k and destroy_list[j] == a)))
                and forall(str, lambda a: implies(a in ref_stats, ref_stats[a][0] is loop_old.ref_stats[a][0]
                                                  and ref_stats[a][1] is loop_old.ref_stats[a][1])))

    # ------------------------------------------------------------------ loop 3: new entities
    def loop3_modifies(self, ref_stats):
        return [contents(ref_stats)]

    def loop3_inv(self, seen, ref_stats, io_stats, loop_old):
        return (forall(str, lambda a: (a in ref_stats) == (a in loop_old.ref_stats or a in seen))
                and forall(str, lambda a: implies(a in loop_old.ref_stats,
                                                  ref_stats[a][0] is loop_old.ref_stats[a][0]
                                                  and ref_stats[a][1] is loop_old.ref_stats[a][1]))
                and forall(str, lambda a: implies(
                    a in seen,
                    was_fresh(ref_stats[a][0]) and was_fresh(ref_stats[a][1]) and len(ref_stats[a][0]) == 1
                    and len(ref_stats[a][1]) == len(io_stats[a])
                    and forall(int, lambda i: implies(0 <= i and i < len(ref_stats[a][1]),
                                                      was_fresh(ref_stats[a][1][i]) and len(ref_stats[a][1][i]) == 1))))
                and forall(str, lambda a: implies(a in ref_stats, ent_alloc(ref_stats, a)))
                and forall(str, lambda a: implies(a in ref_stats, ent_aligned(ref_stats, a, self.depth))))
