"""C03 - Start sequences are honoured (and the sequencing discipline shared with C09: ApplicationJobs / Commander).

Abstract view of an ApplicationJobs J: plan(J) = J.planned_jobs (sequence number -> group = list of commands still to be
triggered), flight(J) = J.current_jobs (commands requested and not yet completed / given up).
"""
from pyvc.spec import *

GROUP = 'commander'   # contracts of one group use each other's contracts at call sites (pyvc/hooks.py contract_for_call)
from contracts.c10 import target_info_known

FAILED_STATES = (ProcessStates.FATAL, ProcessStates.STOPPED, ProcessStates.STOPPING, ProcessStates.UNKNOWN)


# ------------------------------------------------------------------------------------------ completion criteria
@contract('commander:ProcessStartCommand.on_event', props=['C03'])
class StartOnEvent:
    """statement: 'has finished starting (RUNNING, or exited as expected when wait_exit is set) or has been given up
    (failed ...)': SUCCESS iff RUNNING and no exit is awaited, or EXITED as expected with wait_exit; FAILED on FATAL,
    unexpected EXITED, STOPPED, STOPPING, UNKNOWN; otherwise still IN_PROGRESS (a BACKOFF restarts the time-out)."""
    raises = ()
    returns = 'ProcessRequestResult'

    def modifies(self):
        return [field(self, 'request_sequence_counter')]

    def pre_target(self):
        return target_info_known(self) and 'expected' in self.process.info_map[self.identifier]

    def post_success_iff(self, result):
        info = self.process.info_map[self.identifier]
        st = info['state']
        wait_exit = self.process.rules.wait_exit
        return (result == ProcessRequestResult.SUCCESS) == (
            (st == ProcessStates.RUNNING and (not wait_exit or self.ignore_wait_exit))
            or (st == ProcessStates.EXITED and wait_exit and info['expected']))

    def post_failed_iff(self, result):
        info = self.process.info_map[self.identifier]
        st = info['state']
        return (result == ProcessRequestResult.FAILED) == (
            st in FAILED_STATES or (st == ProcessStates.EXITED and not (self.process.rules.wait_exit and info['expected'])))

    def post_otherwise_in_progress(self, result):
        return (result == ProcessRequestResult.SUCCESS or result == ProcessRequestResult.FAILED
                or result == ProcessRequestResult.IN_PROGRESS)

    def post_backoff_resets_the_margin(self, result, old):
        st = self.process.info_map[self.identifier]['state']
        return self.request_sequence_counter == ite(st == ProcessStates.BACKOFF,
                                                    self.instance_status.times.remote_sequence_counter,
                                                    old.self.request_sequence_counter)


# ------------------------------------------------------------------------------------------ job shape
from contracts.assumed_repo import (job_discipline, reports_untouched, other_command_lists_untouched, in_plan,
                                    only_removed_or_triggered, plan_only_shrinks, before_seq,
                                    plan_shrinks_in_order)


def job_shape(j):
    """shape validity of an ApplicationJobs (from the code: current_jobs is a list created by __init__ and never stored
    elsewhere; groups are created by store_application / add_commands; a command sits in one place only)"""
    return (forall(ApplicationJobs, int, lambda j2, s: implies(s in j.planned_jobs, j.planned_jobs[s] is not j2.current_jobs))
            and forall(int, lambda s: implies(s in j.planned_jobs,
                                              forall(j.planned_jobs[s], lambda c: c not in j.current_jobs))))


# ------------------------------------------------------------------------------------------ process_job (hooks)
@contract('commander:ApplicationStartJobs.process_job', props=['C03'])
class StartProcessJob:
    """Taken by contract in next() (NOT verified here: the placement callees get_supvisors_instance / get_load_requests /
    update_identifier belong to C04 / C14 / C16).  RE-ENTRANT call-out: when no instance can take the process the job
    calls fail_command, which re-enters the Starter (forced event -> fsm -> starter.on_event -> Commander.next).
    pre_visible_to_reentrant_next is the Spec#-style call-out obligation (DESIGN 1.5): the re-entered Commander.next
    retires every job whose in_progress() is false and then starts the applications of the next sequence, so - statement:
    'an application only begins once all applications with a lower positive start_sequence are done' - a job that still
    has commands to trigger must look in progress at the call-out."""
    assumed = True
    raises = ()
    effect = 'process_job'
    returns = 'bool'

    def pre_visible_to_reentrant_next(self, command):
        return len(self.planned_jobs) > 0 or len(self.current_jobs) > 0

    def post_discipline(self, old):
        return job_discipline(self, old)

    def post_shape_kept(self, old):
        return implies(job_shape(old.self), job_shape(self))

    def post_queued_command_is_targeted(self, command, result):
        return implies(result, target_info_known(command) and 'expected' in command.process.info_map[command.identifier])

    def post_not_in_flight_yet(self, command, old):
        """the command being triggered is not yet in the in-flight list (next() appends it afterwards)"""
        return implies(command not in old.self.current_jobs and not in_plan(old.self, command),
                       command not in self.current_jobs)


@contract('commander:ApplicationStopJobs.process_job', props=['C09'])
class StopProcessJob:
    """statement: 'stops are only sent to instances where the process is running': one send_stop_process(identifier,
    namespec) iff process.running_on(identifier), and then the command is in flight (True); otherwise nothing is sent"""
    raises = ()
    returns = 'Optional[bool]'
    effect = 'process_job'

    def modifies(self, command):
        return [field(command, 'request_sequence_counter')]

    def pre_stop_command(self, command):
        """a ProcessStopCommand gets its target in its constructor"""
        return command.instance_status is not None and command.identifier is not None

    def post_effect_only_where_running(self, command, old):
        p = command.process
        running = p._state in (ProcessStates.STARTING, ProcessStates.BACKOFF, ProcessStates.RUNNING) \
            and command.identifier in p.running_identifiers
        e = effect_at('send_stop_process', 0)
        one = (e[0] == command.identifier and e[1] == p.namespec) if count_effects('send_stop_process') == 1 else False
        return ite(running, one, no_effect())

    def post_in_flight_iff_running(self, command, result):
        p = command.process
        running = p._state in (ProcessStates.STARTING, ProcessStates.BACKOFF, ProcessStates.RUNNING) \
            and command.identifier in p.running_identifiers
        return ite(running, result is True and command.request_sequence_counter == command.instance_status.times.remote_sequence_counter,
                   result is None)


# ------------------------------------------------------------------------------------------ ApplicationJobs.next
def groups_are_not_the_flight_list(j):
    """shape validity: current_jobs is the list created by __init__, planned groups are other list objects"""
    return forall(int, lambda s: implies(s in j.planned_jobs, j.planned_jobs[s] is not j.current_jobs))


def stop_plan_targeted(j):
    """commands of a stop plan are ProcessStopCommand objects, built with their target (constructor)"""
    return implies(isinstance(j, ApplicationStopJobs),
                   forall(int, lambda s: implies(s in j.planned_jobs, forall(j.planned_jobs[s], lambda c: (
                       c.instance_status is not None and c.identifier is not None)))))


@contract('commander:ApplicationJobs.next', props=['C03', 'C09'])
class JobsNext:
    """C03: 'a process is only requested to start once every process of the same application with a lower positive
    start_sequence has finished starting ... or has been given up';  C09: 'no process is asked to stop while a process of
    the same application with a higher stop_sequence is still running or stopping ..., processes sharing a stop_sequence
    are asked together'.  Per-call formulation (the in-flight list holds exactly the commands requested and neither
    completed nor given up, see on_event / check / on_instances_invalidation):
    * nothing is triggered and nothing changes while a command is in flight;
    * otherwise groups leave the plan in pickup order (min for starts, max for stops): every sequence number that left
      the plan is before every sequence number that remains; every command of a popped group is passed to process_job, in
      the same call (loop0_iter), and only commands accepted by process_job enter the in-flight list;
    * the call returns with a command in flight or with an empty plan (the sequence moves on).
    Re-entrancy: process_job of a start job may call out (see StartProcessJob)."""
    variants = ['ApplicationStartJobs', 'ApplicationStopJobs']
    raises = ()
    recursive = True

    def pre_shape(self):
        return groups_are_not_the_flight_list(self)

    def pre_stop_commands(self):
        return stop_plan_targeted(self)

    def post_blocked_while_in_flight(self, old):
        return implies(len(old.self.current_jobs) > 0,
                       self.planned_jobs is old.self.planned_jobs and self.current_jobs == old.self.current_jobs
                       and forall(int, lambda s: (s in self.planned_jobs) == (s in old.self.planned_jobs)))

    def post_effect_blocked_while_in_flight(self, old):
        return implies(len(old.self.current_jobs) > 0, no_effect())

    def post_plan_only_shrinks(self, old):
        """the in-flight list object is kept; remaining groups are the same list objects under the same sequence number"""
        return self.current_jobs is old.self.current_jobs and plan_only_shrinks(self, old)

    def post_pickup_order(self, old):
        return plan_shrinks_in_order(self, old)

    def post_moves_on(self):
        return len(self.current_jobs) > 0 or len(self.planned_jobs) == 0

    def post_shape(self):
        return groups_are_not_the_flight_list(self) and stop_plan_targeted(self)

    def loop0_inv(self, k, group, sequence_number, old, loop_old):
        return (self.current_jobs is loop_old.self.current_jobs and plan_only_shrinks(self, loop_old)
                and plan_shrinks_in_order(self, loop_old)
                and forall(int, lambda r: implies(r in self.planned_jobs, before_seq(self, sequence_number, r)))
                and group is not self.current_jobs and groups_are_not_the_flight_list(self) and stop_plan_targeted(self)
                and implies(isinstance(self, ApplicationStopJobs),
                            group == loop_old(group)
                            and forall(group, lambda c: c.instance_status is not None and c.identifier is not None)))

    def loop0_iter(self, k, group, command, iter_old):
        """every command of the popped group is passed to process_job exactly once, in the call that popped the group, and
        enters the in-flight list only if process_job accepted it"""
        e = effect_at('process_job', 0)
        return ((e[0] is command) if count_effects('process_job') == 1 else False) and command is iter_old(group)[k - 1]


# ------------------------------------------------------------------------------------------ starting failure strategy
@contract('commander:ApplicationStartJobs.process_failure', props=['C03'])
class StartProcessFailure:
    """statement: 'After a required process fails to start, starting_failure_strategy is honoured: ABORT and STOP request
    nothing further for that application (STOP then stops it once in-flight starts end), CONTINUE proceeds.'"""
    raises = ()

    def modifies(self):
        return [field(self, 'planned_jobs'), field(self, 'stop_request')]

    def post_strategy(self, process, old):
        strategy = process.rules.starting_failure_strategy
        wiped = process.rules.required and strategy in (StartingFailureStrategies.ABORT, StartingFailureStrategies.STOP)
        return (ite(wiped, len(self.planned_jobs) == 0, self.planned_jobs is old.self.planned_jobs)
                and self.stop_request == (old.self.stop_request
                                          or (process.rules.required and strategy == StartingFailureStrategies.STOP)))
