"""C03 - Start sequences are honoured (and the sequencing discipline shared with C09: ApplicationJobs / Commander).

Abstract view of an ApplicationJobs J: plan(J) = J.planned_jobs (sequence number -> group = list of commands still to be
triggered), flight(J) = J.current_jobs (commands requested and not yet completed / given up).
"""
from pyvc.spec import *
from contracts.c10 import target_info_known

FAILED_STATES = (ProcessStates.FATAL, ProcessStates.STOPPED, ProcessStates.STOPPING, ProcessStates.UNKNOWN)


# ------------------------------------------------------------------------------------------ completion criteria
@contract('commander:ProcessStartCommand.on_event', props=['C03'])
class StartOnEvent:
    """statement: 'has finished starting (RUNNING, or exited as expected when wait_exit is set) or has been given up
    (failed ...)': SUCCESS iff RUNNING and no exit is awaited, or EXITED as expected with wait_exit; FAILED on FATAL,
    unexpected EXITED, STOPPED, STOPPING, UNKNOWN; otherwise still IN_PROGRESS (a BACKOFF restarts the time-out)."""
    raises = ()
    returns = 'ProcessRequestResult'

    def modifies(self):
        return [field(self, 'request_sequence_counter')]

    def pre_target(self):
        return target_info_known(self) and 'expected' in self.process.info_map[self.identifier]

    def post_success_iff(self, result):
        info = self.process.info_map[self.identifier]
        st = info['state']
        wait_exit = self.process.rules.wait_exit
        return (result == ProcessRequestResult.SUCCESS) == (
            (st == ProcessStates.RUNNING and (not wait_exit or self.ignore_wait_exit))
            or (st == ProcessStates.EXITED and wait_exit and info['expected']))

    def post_failed_iff(self, result):
        info = self.process.info_map[self.identifier]
        st = info['state']
        return (result == ProcessRequestResult.FAILED) == (
            st in FAILED_STATES or (st == ProcessStates.EXITED and not (self.process.rules.wait_exit and info['expected'])))

    def post_otherwise_in_progress(self, result):
        return (result == ProcessRequestResult.SUCCESS or result == ProcessRequestResult.FAILED
                or result == ProcessRequestResult.IN_PROGRESS)

    def post_backoff_resets_the_margin(self, result, old):
        st = self.process.info_map[self.identifier]['state']
        return self.request_sequence_counter == ite(st == ProcessStates.BACKOFF,
                                                    self.instance_status.times.remote_sequence_counter,
                                                    old.self.request_sequence_counter)
