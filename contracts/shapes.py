"""Shape declarations the annotations of /repo do not give (fields typed Any or untyped, payload record keys),
and installation of assumed externals.  Everything here is *assumed shape validity*: listed in the evidence and
checked against real payloads by the run-time monitor of the thorough tier.
"""
from pyvc.core import (INT, BOOL, REAL, STR, ANY, NONE, TEnum, TObj, TOpt, TList, TSet, TDict, TTuple, REC, Builtin,
                       ModuleV, ClassV)

# plain classes of int constants used like enumerations (supervisor.states)
INT_CONST_CLASSES = ('ProcessStates', 'SupervisorStates', 'EventListenerStates')

PS = TEnum('ProcessStates')

ALIASES = {
    'Logger': 'logger',
    'Payload': REC,
}

# (class or '*', field) -> type
FIELD_TYPES = {
    ('*', 'supvisors'): TObj('Supvisors'),
    ('*', 'logger'): 'logger',
    ('Supvisors', 'logger'): 'logger',
    ('Supvisors', 'rpc_handler'): TObj('RpcHandler'),
    ('Supvisors', 'parser'): TOpt(TObj('Parser')),
    ('Supvisors', 'stats_collector'): TOpt(TObj('StatisticsCollectorProcess')),
    ('Supvisors', 'external_publisher'): TOpt(TObj('EventPublisherInterface')),
    ('Supvisors', 'discovery_handler'): TOpt(TObj('SupvisorsDiscovery')),
    # options (values produced by the to_* converters of options.py, see C18)
    ('SupvisorsOptions', 'inactivity_ticks'): INT,
    ('SupvisorsOptions', 'auto_fence'): BOOL,
    ('SupvisorsOptions', 'synchro_timeout'): INT,
    ('SupvisorsOptions', 'synchro_options'): TList(TEnum('SynchronizationOptions')),
    ('SupvisorsOptions', 'core_identifiers'): TSet(STR),
    ('SupvisorsOptions', 'supvisors_list'): TOpt(TList(STR)),
    ('SupvisorsOptions', 'conciliation_strategy'): TEnum('ConciliationStrategies'),
    ('SupvisorsOptions', 'starting_strategy'): TEnum('StartingStrategies'),
    ('SupvisorsOptions', 'supvisors_failure_strategy'): TEnum('SupvisorsFailureStrategies'),
    ('SupvisorsOptions', 'host_stats_enabled'): BOOL,
    ('SupvisorsOptions', 'process_stats_enabled'): BOOL,
    ('SupvisorsOptions', 'stats_histo'): INT,
    ('SupvisorsOptions', 'stats_irix_mode'): BOOL,
    ('SupvisorsOptions', 'stats_periods'): TList(REAL),
    ('SupvisorsOptions', 'collecting_period'): REAL,
    ('SupvisorsOptions', 'multicast_group'): TOpt(TTuple([STR, INT])),
    ('SupvisorsOptions', 'disabilities_file'): TOpt(STR),
    ('SupvisorsOptions', 'rules_files'): TOpt(TList(STR)),
    # rules parser (C18): xml elements are objects of the external class Element (assumed accessors in externals.py)
    ('Parser', 'roots'): TList(TObj('Element')),
    ('Parser', 'aliases'): TDict(STR, TList(STR)),
    ('Parser', 'models'): TDict(STR, TObj('Element')),
    ('Parser', 'application_patterns'): TDict(STR, TObj('Element')),
    ('Parser', 'program_patterns'): TDict(TObj('Element'), TDict(STR, TObj('Element'))),
    ('Match', 'pattern'): STR,     # ghost view of re.Match: the pattern and the string it was obtained from
    ('Match', 'string'): STR,
    ('Pattern', 'pattern'): STR,   # ghost view of re.Pattern: the text it was compiled from
    ('SupvisorsOptions', 'stereotypes'): TSet(STR),
    ('ProcessCommand', 'minimum_ticks'): INT,
    # declared at base level so that specifications over a ProcessCommand can read it (field of ProcessStartCommand)
    ('ProcessCommand', 'ignore_wait_exit'): BOOL,
    ('Commander', 'class_name'): STR,
    ('ApplicationStatus', 'rules'): TObj('ApplicationRules'),
    ('SupvisorsInstanceStatus', 'stats_collector'): TOpt(TObj('StatisticsCollectorProcess')),
    # annotated float, but only ever built by HostStatisticsCompiler.add_instance from options.stats_histo (an int)
    ('HostStatisticsInstance', 'depth'): INT,
    # C14/C04: the class-level default of local_view is None until the handshake identifies the instance
    ('SupvisorsInstanceId', 'local_view'): TOpt(TObj('LocalNetwork')),
    # C14/C04 ghost quantities standing for the sums the engine does not unfold (see contracts/c14.py)
    ('SupvisorsInstanceStatus', 'ghost_load'): INT,
    ('Context', 'ghost_node_load'): TDict(STR, INT),
    ('Starter', 'ghost_node_requests'): TDict(STR, INT),
    ('ApplicationStatus', 'ghost_start_sequence_load'): INT,
    # C13 handshake: the XML-RPC client of a peer (external class xmlrpc.client.ServerProxy) and its 'supvisors' namespace,
    # whose methods are assumed externals (contracts/assumed_transport.py)
    ('ServerProxy', 'supvisors'): TObj('SupvisorsRPC'),
    # Supervisor events handed to the SupervisorListener (C16 last-resort guards)
    ('TickEvent', 'when'): REAL, ('RemoteCommunicationEvent', 'type'): STR, ('RemoteCommunicationEvent', 'data'): STR,
}

# keys of payload records (Dict[str, Any] with literal keys) -> type
REC_KEYS = {
    # supervisor process info / process events
    'name': STR, 'group': STR, 'state': PS, 'statename': STR, 'start': REAL, 'stop': REAL, 'now': REAL, 'pid': INT,
    'description': STR, 'spawnerr': STR, 'expected': BOOL, 'now_monotonic': REAL, 'start_monotonic': REAL,
    'stop_monotonic': REAL, 'startsecs': INT, 'stopwaitsecs': INT, 'extra_args': STR, 'disabled': BOOL,
    'program_name': STR, 'process_index': INT, 'has_stdout': BOOL, 'has_stderr': BOOL,
    # added by ProcessStatus
    'local_mtime': REAL, 'event_time': REAL, 'uptime': REAL, 'has_crashed': BOOL,
    # forced events
    'identifier': STR, 'forced': BOOL,
    # reception time added by Context.on_process_state_event before the external publication
    'event_mtime': REAL,
    # ticks
    'when': REAL, 'when_monotonic': REAL, 'sequence_counter': INT, 'stereotypes': TList(STR),
    'nick_identifier': STR, 'ip_address': STR,
    # statistics samples (statscollector.py; JSON turns the tuples into 2-element lists, same reads) and the keys of
    # the integrated results that do not clash with a sample key (the results are dict literals, never stored in records)
    'cpu': TList(TTuple([REAL, REAL])), 'mem': REAL, 'net_io': TDict(STR, TTuple([INT, INT])),
    'disk_io': TDict(STR, TTuple([INT, INT])), 'disk_usage': TDict(STR, REAL),
    'namespec': STR, 'proc_work': REAL, 'proc_memory': REAL, 'nb_cores': INT, 'target_period': REAL,
    'period': TTuple([REAL, REAL]),
    # handshake notifications
    'authorization': INT,
    # handshake XML-RPC answers: SupvisorsInstanceStatus.serial (statecode) and RPCInterface.get_strategies
    'statecode': INT, 'auto-fencing': BOOL, 'starting': STR, 'conciliation': STR, 'supvisors_failure': STR,
    # state & modes publications (StateModes.serial / StateModes.update)
    'fsm_statecode': INT, 'fsm_statename': STR, 'degraded_mode': BOOL, 'discovery_mode': BOOL, 'master_identifier': STR,
    'starting_jobs': BOOL, 'stopping_jobs': BOOL, 'instance_states': TDict(STR, STR),
    # identification handshake (C04: SupvisorsMapper.identify)
    'network': REC, 'machine_id': STR, 'fqdn': STR,
}

EXTERNAL_TYPES = {'Element': TObj('Element'), 'Match': TObj('Match'), 'Pattern': TObj('Pattern'),
                  'ServerProxy': TObj('ServerProxy'), 'SupvisorsRPC': TObj('SupvisorsRPC'),
                  'TickEvent': TObj('TickEvent'), 'RemoteCommunicationEvent': TObj('RemoteCommunicationEvent')}

# mutable class-level attributes that the code mutates or aliases: modelled as ONE heap object (C18, Appendix A7)
CLASS_HEAP_ATTRS = {
    ('SupvisorsOptions', 'SYNCHRO_DEFAULT_OPTIONS'): TList(TEnum('SynchronizationOptions')),
}

# ---------------------------------------------------------------------------------------------------- python `ast`
# The node classes of the running interpreter's `ast` module become *synthetic external classes* 'ast.<Name>' of the
# class table, generated mechanically from the ASDL signatures in the class docstrings ('Call(expr func, expr* args,
# keyword* keywords)').  Shape validity assumed (contract of ast.parse): a parsed tree conforms to the ASDL.
# `constant` (Constant.value): a str, or any non-str constant abstracted to None - sound for code that only tests
# `type(v) is str` / isinstance(v, str) or uses the value once known to be a str.
AST_CONSTANT = TOpt(STR)


def ast_model():
    """-> {class name: (base names, {field: type})} for every non-deprecated node class of `ast`"""
    import ast as _ast
    import re as _re

    def subs(c):
        for x in c.__subclasses__():
            yield x
            yield from subs(x)
    classes = [c for c in subs(_ast.AST) if c.__module__ == 'ast' and 'Deprecated' not in (c.__doc__ or '')]
    names = {c.__name__ for c in classes} | {'AST'}
    prim = {'identifier': STR, 'string': STR, 'int': INT, 'constant': AST_CONSTANT}

    def fty(t):
        base, suffix = (t[:-1], t[-1]) if t[-1] in '*?' else (t, '')
        b = prim[base] if base in prim else TObj('ast.' + base)
        if base not in prim and base not in names:
            raise ValueError(f'ast model: unknown ASDL type {base}')
        return TList(b) if suffix == '*' else (b if isinstance(b, TOpt) else TOpt(b)) if suffix == '?' else b
    out = {'ast.AST': ([], {})}
    for c in classes:
        fields = {}
        m = _re.match(r'^%s\((.*)\)$' % c.__name__, (c.__doc__ or '').strip())
        if c._fields:
            if not m:
                raise ValueError(f'ast model: no ASDL signature for {c.__name__}')
            for part in m.group(1).split(','):
                t, f = part.split()
                fields[f] = fty(t)
            if tuple(fields) != tuple(c._fields):
                raise ValueError(f'ast model: signature of {c.__name__} disagrees with _fields')
        out['ast.' + c.__name__] = (['ast.' + b.__name__ for b in c.__bases__ if b.__name__ in names], fields)
    # deprecated read-only aliases of Constant.value still present in this interpreter (application.py reads node.s)
    for alias in ('s', 'n'):
        if isinstance(getattr(_ast.Constant, alias, None), property):
            out['ast.Constant'][1][alias] = AST_CONSTANT
    return out


def _install_ast(world):
    import ast as _ast
    from pyvc.classtable import ClassInfo
    stub = _ast.parse('class _:\n    pass').body[0]
    for cname, (bases, fields) in ast_model().items():
        ci = ClassInfo(cname, 'ast', stub)
        ci.bases = list(bases)
        world.ct.classes[cname] = ci
        world.reg.externals[cname] = ClassV(cname)
        for f, t in fields.items():
            FIELD_TYPES[(cname, f)] = t
    ALIASES.update({'AstNode': TObj('ast.AST'), 'AstModule': TObj('ast.Module'), 'AstExpr': TObj('ast.expr'),
                    'AstStmt': TObj('ast.stmt')})
    FIELD_TYPES[('ApplicationRules', '_status_tree')] = TOpt(TObj('ast.Module'))


def install(world):
    """register builtin-valued externals"""
    reg = world.reg
    reg.externals['time.monotonic'] = Builtin('ext:time.monotonic')
    reg.externals['time.time'] = Builtin('ext:time.time')
    reg.externals['math.ceil'] = Builtin('ext:math.ceil')
    _install_ast(world)
    reg.externals['supervisor.events.Tick5Event.period'] = 5    # class constant of supervisor.events.Tick5Event
    for k, v in dict(CRIT=50, ERRO=40, WARN=30, INFO=20, DEBG=10, TRAC=5, BLAT=3).items():
        reg.externals[f'supervisor.loggers.LevelsByName.{k}'] = v
