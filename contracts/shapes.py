"""Shape declarations the annotations of /repo do not give (fields typed Any or untyped, payload record keys),
and installation of assumed externals.  Everything here is *assumed shape validity*: listed in the evidence and
checked against real payloads by the run-time monitor of the thorough tier.
"""
from pyvc.core import (INT, BOOL, REAL, STR, ANY, NONE, TEnum, TObj, TOpt, TList, TSet, TDict, TTuple, REC, Builtin,
                       ModuleV, ClassV)

# plain classes of int constants used like enumerations (supervisor.states)
INT_CONST_CLASSES = ('ProcessStates', 'SupervisorStates', 'EventListenerStates')

PS = TEnum('ProcessStates')

ALIASES = {
    'Logger': 'logger',
    'Payload': REC,
}

# (class or '*', field) -> type
FIELD_TYPES = {
    ('*', 'supvisors'): TObj('Supvisors'),
    ('*', 'logger'): 'logger',
    ('Supvisors', 'logger'): 'logger',
    ('Supvisors', 'rpc_handler'): TObj('RpcHandler'),
    ('Supvisors', 'parser'): TOpt(TObj('Parser')),
    ('Supvisors', 'stats_collector'): TOpt(TObj('StatisticsCollectorProcess')),
    ('Supvisors', 'external_publisher'): TOpt(TObj('EventPublisherInterface')),
    ('Supvisors', 'discovery_handler'): TOpt(TObj('SupvisorsDiscovery')),
    # options (values produced by the to_* converters of options.py, see C18)
    ('SupvisorsOptions', 'inactivity_ticks'): INT,
    ('SupvisorsOptions', 'auto_fence'): BOOL,
    ('SupvisorsOptions', 'synchro_timeout'): INT,
    ('SupvisorsOptions', 'synchro_options'): TList(TEnum('SynchronizationOptions')),
    ('SupvisorsOptions', 'core_identifiers'): TSet(STR),
    ('SupvisorsOptions', 'supvisors_list'): TOpt(TList(STR)),
    ('SupvisorsOptions', 'conciliation_strategy'): TEnum('ConciliationStrategies'),
    ('SupvisorsOptions', 'starting_strategy'): TEnum('StartingStrategies'),
    ('SupvisorsOptions', 'supvisors_failure_strategy'): TEnum('SupvisorsFailureStrategies'),
    ('SupvisorsOptions', 'host_stats_enabled'): BOOL,
    ('SupvisorsOptions', 'process_stats_enabled'): BOOL,
    ('SupvisorsOptions', 'stats_histo'): INT,
    ('SupvisorsOptions', 'stats_irix_mode'): BOOL,
    ('SupvisorsOptions', 'stats_periods'): TList(REAL),
    ('SupvisorsOptions', 'collecting_period'): REAL,
    ('SupvisorsOptions', 'multicast_group'): TOpt(TTuple([STR, INT])),
    ('SupvisorsOptions', 'disabilities_file'): TOpt(STR),
    ('SupvisorsOptions', 'rules_files'): TOpt(TList(STR)),
    ('ProcessCommand', 'minimum_ticks'): INT,
    ('SupvisorsInstanceStatus', 'stats_collector'): TOpt(TObj('StatisticsCollectorProcess')),
    # C14/C04: the class-level default of local_view is None until the handshake identifies the instance
    ('SupvisorsInstanceId', 'local_view'): TOpt(TObj('LocalNetwork')),
    # C14/C04 ghost quantities standing for the sums the engine does not unfold (see contracts/c14.py)
    ('SupvisorsInstanceStatus', 'ghost_load'): INT,
    ('Context', 'ghost_node_load'): TDict(STR, INT),
    ('Starter', 'ghost_node_requests'): TDict(STR, INT),
}

# keys of payload records (Dict[str, Any] with literal keys) -> type
REC_KEYS = {
    # supervisor process info / process events
    'name': STR, 'group': STR, 'state': PS, 'statename': STR, 'start': REAL, 'stop': REAL, 'now': REAL, 'pid': INT,
    'description': STR, 'spawnerr': STR, 'expected': BOOL, 'now_monotonic': REAL, 'start_monotonic': REAL,
    'stop_monotonic': REAL, 'startsecs': INT, 'stopwaitsecs': INT, 'extra_args': STR, 'disabled': BOOL,
    'program_name': STR, 'process_index': INT, 'has_stdout': BOOL, 'has_stderr': BOOL,
    # added by ProcessStatus
    'local_mtime': REAL, 'event_time': REAL, 'uptime': REAL, 'has_crashed': BOOL,
    # forced events
    'identifier': STR, 'forced': BOOL,
    # ticks
    'when': REAL, 'when_monotonic': REAL, 'sequence_counter': INT, 'stereotypes': TList(STR),
    'nick_identifier': STR, 'ip_address': STR,
    # identification handshake (C04: SupvisorsMapper.identify)
    'network': REC, 'machine_id': STR, 'fqdn': STR,
}

EXTERNAL_TYPES = {}


def install(world):
    """register builtin-valued externals"""
    reg = world.reg
    reg.externals['time.monotonic'] = Builtin('ext:time.monotonic')
    reg.externals['time.time'] = Builtin('ext:time.time')
    reg.externals['math.ceil'] = Builtin('ext:math.ceil')
    reg.externals['supervisor.events.Tick5Event.period'] = 5    # class constant of supervisor.events.Tick5Event
    for k, v in dict(CRIT=50, ERRO=40, WARN=30, INFO=20, DEBG=10, TRAC=5, BLAT=3).items():
        reg.externals[f'supervisor.loggers.LevelsByName.{k}'] = v
