"""C18 - Rules and options resolve totally, in-domain, with documented precedence.

Deductive part: the decision logic of the rules parser (lookup precedence, best pattern, bounded model recursion,
domain checks), of the dependency checks of ProcessRules / ApplicationRules and of the [supvisors] option converters.
Everything that computes on the *contents* of strings (int(), float(), re, ElementTree, list_of_strings ...) is an
assumed external whose result is an uninterpreted function of its arguments (contracts/externals.py); the string-level
pieces themselves are exercised by the bounded stand-ins of pyvc/structural_c18.py (never counted as proved).
"""
from pyvc.spec import *

GROUP = 'rules'   # contracts of one group use each other's contracts at call sites (pyvc/hooks.py contract_for_call)


# ======================================================================================================================
# 4. dependency checks (process.py / application.py)
# ======================================================================================================================
@contract('process:ProcessRules.check_dependencies', props=['C18'])
class ProcessRulesCheckDependencies:
    """statement: 'required without a start_sequence is dropped, stop_sequence defaults to start_sequence'; DESIGN C18.4:
    '@/# outside a pattern reset to ["*"]; both signs => # dropped'.  Whole view: everything else is unchanged."""
    raises = ()

    def modifies(self):
        return [field(self, 'identifiers'), field(self, 'at_identifiers'), field(self, 'hash_identifiers'),
                field(self, 'required'), field(self, 'stop_sequence')]

    def post_required_needs_start_sequence(self, old):
        return self.required == (old.self.required and old.self.start_sequence != 0)

    def post_stop_sequence_defaults_to_start_sequence(self, old):
        return (self.stop_sequence == (old.self.start_sequence if old.self.stop_sequence < 0 else old.self.stop_sequence)
                and self.start_sequence == old.self.start_sequence)

    def post_signs_outside_pattern_reset(self, is_pattern, old):
        return implies(not is_pattern and (len(old.self.at_identifiers) > 0 or len(old.self.hash_identifiers) > 0),
                       self.identifiers == ['*'] and self.at_identifiers == [] and self.hash_identifiers == [])

    def post_both_signs_hash_dropped(self, is_pattern, old):
        return implies(is_pattern and len(old.self.at_identifiers) > 0 and len(old.self.hash_identifiers) > 0,
                       self.hash_identifiers == [] and self.at_identifiers is old.self.at_identifiers
                       and self.identifiers is old.self.identifiers)

    def post_otherwise_identifiers_untouched(self, is_pattern, old):
        at, hsh = len(old.self.at_identifiers) > 0, len(old.self.hash_identifiers) > 0
        return implies((is_pattern and not (at and hsh)) or (not at and not hsh),
                       self.identifiers is old.self.identifiers and self.at_identifiers is old.self.at_identifiers
                       and self.hash_identifiers is old.self.hash_identifiers)

    def post_never_both_signs(self):
        return not (len(self.at_identifiers) > 0 and len(self.hash_identifiers) > 0)


@contract('application:ApplicationRules.check_hash_identifiers', props=['C18'])
class ApplicationRulesCheckHashIdentifiers:
    """DESIGN C18.4: 'check_hash_identifiers index arithmetic ((n-1) mod len), safe:ZeroDivisionError when
    ref_identifiers = []'.  The application number n is the integer captured by the trailing [-_]<digits> of the name
    (assumed regex semantics); without it, or with n = 0, the application cannot be started automatically."""
    raises = ()

    def modifies(self):
        return [field(self, 'identifiers'), field(self, 'start_sequence')]

    def pre_called_with_hash(self):
        # only call site: ApplicationRules.check_dependencies, under `if self.hash_identifiers`
        return len(self.hash_identifiers) > 0

    def pre_mapper_knows_the_local_instance(self):
        # structural validity of SupvisorsMapper (DESIGN 1.4): configure() registers at least the local instance before
        # any rule is loaded and instances are never removed
        return len(self.supvisors.mapper.instances) > 0

    def pre_regex_semantics_of_the_literal_pattern(self):
        # assumed facts about the LITERAL pattern r'.*[-_](\d+)$' (checked on samples by the bounded stand-in): it is a
        # valid regular expression, and its group 1 is a non-empty run of decimal digits, which int() accepts
        return (uf('re_valid', bool, '.*[-_](\\d+)$')
                and forall(str, lambda s: implies(app_has_index(s), uf('int_parses', bool, uf('re_group', str, '.*[-_](\\d+)$', s, 1))
                                                  and app_index(s) >= 0)))

    def post_no_index_no_automatic_start(self, application_name, old):
        return implies(not app_has_index(application_name) or app_index(application_name) < 1,
                       self.start_sequence == 0 and self.identifiers is old.self.identifiers)

    def post_rolling_index(self, application_name, old):
        n = app_index(application_name)
        return implies(app_has_index(application_name) and n >= 1 and '*' not in self.hash_identifiers,
                       len(self.identifiers) == 1 and self.start_sequence == old.self.start_sequence
                       and self.identifiers[0] == self.hash_identifiers[(n - 1) % len(self.hash_identifiers)])

    def post_wildcard_uses_known_instances(self, application_name, old):
        n = app_index(application_name)
        return implies(app_has_index(application_name) and n >= 1 and '*' in self.hash_identifiers,
                       len(self.identifiers) == 1 and self.identifiers[0] in self.supvisors.mapper.instances
                       and self.start_sequence == old.self.start_sequence)


def mapper_valid(rules):
    """structural validity of SupvisorsMapper (DESIGN 1.4): configure() registers at least the local instance before any
    rule is loaded and instances are never removed"""
    return len(rules.supvisors.mapper.instances) > 0


def literal_regex_facts():
    """assumed facts about the LITERAL pattern r'.*[-_](\\d+)$' (checked on samples by the bounded stand-in): it is a
    valid regular expression, and its group 1 is a non-empty run of decimal digits, which int() accepts"""
    return (uf('re_valid', bool, '.*[-_](\\d+)$')
            and forall(str, lambda s: implies(app_has_index(s),
                                              uf('int_parses', bool, uf('re_group', str, '.*[-_](\\d+)$', s, 1))
                                              and app_index(s) >= 0)))


def app_has_index(name):
    return uf('re_match_matches', bool, '.*[-_](\\d+)$', name)


def app_index(name):
    return uf('int_value', int, uf('re_group', str, '.*[-_](\\d+)$', name, 1))


@contract('application:ApplicationRules.check_dependencies', props=['C18'])
class ApplicationRulesCheckDependencies:
    """statement: 'stop_sequence defaults to start_sequence' (the start_sequence used is the one read from the file, the
    '#' resolution may afterwards reset start_sequence to 0 when the application name carries no index)"""
    raises = ()

    def modifies(self):
        return [field(self, 'identifiers'), field(self, 'start_sequence'), field(self, 'stop_sequence')]

    def pre_mapper_knows_the_local_instance(self):
        return mapper_valid(self)

    def pre_regex_semantics_of_the_literal_pattern(self):
        return literal_regex_facts()

    def post_stop_sequence_defaults_to_start_sequence(self, old):
        return self.stop_sequence == (old.self.start_sequence if old.self.stop_sequence < 0 else old.self.stop_sequence)

    def post_without_hash_untouched(self, old):
        return implies(len(self.hash_identifiers) == 0,
                       self.identifiers is old.self.identifiers and self.start_sequence == old.self.start_sequence)

    def post_with_hash_single_identifier_or_no_start(self, old):
        return implies(len(self.hash_identifiers) > 0,
                       (len(self.identifiers) == 1 and self.start_sequence == old.self.start_sequence)
                       or (self.start_sequence == 0 and self.identifiers is old.self.identifiers))


# ======================================================================================================================
# 5. [supvisors] options (options.py)
# ======================================================================================================================
def int_ok(text, lo, hi):
    """the text denotes an integer of the documented range"""
    return uf('int_parses', bool, text) and lo <= uf('int_value', int, text) and uf('int_value', int, text) <= hi


@contract('options:SupvisorsOptions.to_integer', props=['C18'])
class ToInteger:
    """statement: 'every [supvisors] option outside its documented range falls back to its default': the converter
    returns the integer denoted iff it lies within the inclusive limits, and raises ValueError (only) otherwise"""
    raises = ('ValueError',)

    def modifies():
        return []

    def post_in_range(value, limits, result):
        return int_ok(value, limits[0], limits[1]) and result == uf('int_value', int, value)

    def exc_ValueError_out_of_range(value, limits, exc):
        return not int_ok(value, limits[0], limits[1])


@contract('options:SupvisorsOptions.to_ttl', props=['C18'])
class ToTtl:
    """documented range of multicast_ttl: [0;255]"""
    raises = ('ValueError',)

    def modifies():
        return []

    def post_in_range(value, result):
        return int_ok(value, 0, 255) and result == uf('int_value', int, value)

    def exc_ValueError_out_of_range(value, exc):
        return not int_ok(value, 0, 255)


@contract('options:SupvisorsOptions.to_port_num', props=['C18'])
class ToPortNum:
    """documented range of event_port / multicast port: [1;65535]"""
    raises = ('ValueError',)

    def modifies():
        return []

    def post_in_range(value, result):
        return int_ok(value, 1, 65535) and result == uf('int_value', int, value)

    def exc_ValueError_out_of_range(value, exc):
        return not int_ok(value, 1, 65535)


@contract('options:SupvisorsOptions.to_timeout', props=['C18'])
class ToTimeout:
    """documented range of synchro_timeout: [15;1200]"""
    raises = ('ValueError',)

    def modifies():
        return []

    def post_in_range(value, result):
        return int_ok(value, 15, 1200) and result == uf('int_value', int, value)

    def exc_ValueError_out_of_range(value, exc):
        return not int_ok(value, 15, 1200)


@contract('options:SupvisorsOptions.to_ticks', props=['C18'])
class ToTicks:
    """documented range of inactivity_ticks: [2;720]"""
    raises = ('ValueError',)

    def modifies():
        return []

    def post_in_range(value, result):
        return int_ok(value, 2, 720) and result == uf('int_value', int, value)

    def exc_ValueError_out_of_range(value, exc):
        return not int_ok(value, 2, 720)


@contract('options:SupvisorsOptions.to_histo', props=['C18'])
class ToHisto:
    """documented range of stats_histo: [10;1500]"""
    raises = ('ValueError',)

    def modifies():
        return []

    def post_in_range(value, result):
        return int_ok(value, 10, 1500) and result == uf('int_value', int, value)

    def exc_ValueError_out_of_range(value, exc):
        return not int_ok(value, 10, 1500)


@contract('options:SupvisorsOptions.to_event_link', props=['C18'])
class ToEventLink:
    """the enumeration member whose name is the upper-cased text, ValueError (only) when there is none"""
    raises = ('ValueError',)

    def modifies():
        return []

    def post_member(value, result):
        return result.name == uf('str_upper', str, value)

    def exc_ValueError_unknown(value, exc):
        return not any(uf('str_upper', str, value) == m.name for m in EventLinks)


@contract('options:SupvisorsOptions.to_conciliation_strategy', props=['C18'])
class ToConciliationStrategy:
    raises = ('ValueError',)

    def modifies():
        return []

    def post_member(value, result):
        return result.name == uf('str_upper', str, value)

    def exc_ValueError_unknown(value, exc):
        return not any(uf('str_upper', str, value) == m.name for m in ConciliationStrategies)


@contract('options:SupvisorsOptions.to_starting_strategy', props=['C18'])
class ToStartingStrategy:
    raises = ('ValueError',)

    def modifies():
        return []

    def post_member(value, result):
        return result.name == uf('str_upper', str, value)

    def exc_ValueError_unknown(value, exc):
        return not any(uf('str_upper', str, value) == m.name for m in StartingStrategies)


@contract('options:SupvisorsOptions.to_supvisors_failure_strategy', props=['C18'])
class ToSupvisorsFailureStrategy:
    raises = ('ValueError',)

    def modifies():
        return []

    def post_member(value, result):
        return result.name == uf('str_upper', str, value)

    def exc_ValueError_unknown(value, exc):
        return not any(uf('str_upper', str, value) == m.name for m in SupvisorsFailureStrategies)


@contract('options:SupvisorsOptions.to_synchro_options', props=['C18'])
class ToSynchroOptions:
    """a list of SynchronizationOptions members without duplicates, ValueError (only) when a name is unknown"""
    raises = ('ValueError',)
    types = {'option_list': 'List[SynchronizationOptions]'}

    def modifies():
        return []

    def post_no_duplicates(result):
        return forall(int, int, lambda i, j: implies(0 <= i and i < j and j < len(result), result[i] != result[j]))

    def post_new_list(result):
        return was_fresh(result)

    def loop0_inv(k, option_list):
        return (was_fresh(option_list)
                and forall(int, int, lambda i, j: implies(0 <= i and i < j and j < len(option_list),
                                                          option_list[i] != option_list[j])))

    def loop0_modifies(option_list):
        return [contents(option_list)]


@contract('options:SupvisorsOptions.to_statistics_type', props=['C18'])
class ToStatisticsType:
    """a pair of booleans, ValueError (only) for an empty list or a text that is neither a StatisticsTypes name nor
    boolean-like"""
    raises = ('ValueError',)
    types = {'stats_types': 'List[StatisticsTypes]'}

    def modifies():
        return []

    def loop0_inv(k, stats_types):
        return was_fresh(stats_types)

    def loop0_modifies(stats_types):
        return [contents(stats_types)]


def period_in_range(p):
    return 1.0 <= p and p <= 3600.0


@contract('options:SupvisorsOptions.to_period', props=['C18'])
class ToPeriod:
    """documented range of stats_collecting_period: [1.0;3600.0] seconds; IEEE comparisons on the parsed float"""
    raises = ('ValueError',)
    returns = 'fp64'

    def modifies():
        return []

    def post_in_range(value, result):
        return period_in_range(result)

    def post_value(value, result):
        return same(result, uf('float_value', 'fp64', value))

    def exc_ValueError_out_of_range(value, exc):
        return not (uf('float_parses', bool, value) and period_in_range(uf('float_value', 'fp64', value)))


@contract('options:SupvisorsOptions.to_periods', props=['C18'])
class ToPeriods:
    """1 to 3 periods, each within [1.0;3600.0] seconds"""
    raises = ('ValueError',)
    returns = 'List[fp64]'
    types = {'periods': 'List[fp64]'}

    def modifies():
        return []

    def post_count(result):
        return 1 <= len(result) and len(result) <= 3

    def post_each_in_range(result):
        return forall(int, lambda j: implies(0 <= j and j < len(result), period_in_range(result[j])))

    def loop0_inv(k, periods, str_periods):
        # every period kept so far is within the documented range: NOT preserved by the present range test (two negated
        # comparisons, both false for NaN) - this is where Appendix A6 shows for to_periods; it is preserved once the
        # test is written `not 1.0 <= period <= 3600.0`
        return (was_fresh(periods) and len(periods) == k and 1 <= len(str_periods) and len(str_periods) <= 3
                and forall(int, lambda j: implies(0 <= j and j < len(periods), period_in_range(periods[j]))))

    def loop0_modifies(periods):
        return [contents(periods)]


def no_duplicates(lst):
    return forall(int, int, lambda i, j: implies(0 <= i and i < j and j < len(lst), lst[i] != lst[j]))


@contract('options:SupvisorsOptions.check_options', props=['C18'])
class CheckOptions:
    """statement: 'only an empty resulting synchro_options is refused, CORE / STRICT are dropped when their lists are
    empty and TIMEOUT forces supvisors_failure_strategy to CONTINUE'; Appendix A7: 'defaults unaffected by one
    instance's resolution' (the class-level default list SYNCHRO_DEFAULT_OPTIONS is modelled as ONE heap object; after
    __init__ without a synchro_options entry, self.synchro_options IS that object)."""
    raises = ('ValueError',)

    def modifies(self):
        return [contents(self.synchro_options), field(self, 'supvisors_failure_strategy')]

    def pre_no_duplicates(self):
        # synchro_options is either the class default (three distinct members) or the result of to_synchro_options,
        # whose contract above proves the absence of duplicates
        return no_duplicates(self.synchro_options)

    def post_core_dropped_without_core_identifiers(self):
        return implies(len(self.core_identifiers) == 0, SynchronizationOptions.CORE not in self.synchro_options)

    def post_strict_dropped_without_supvisors_list(self):
        return implies(self.supvisors_list is None or len(self.supvisors_list) == 0,
                       SynchronizationOptions.STRICT not in self.synchro_options)

    def post_nothing_else_dropped(self, old):
        no_core = len(self.core_identifiers) == 0
        no_list = self.supvisors_list is None or len(self.supvisors_list) == 0
        return all(implies(o in old.self.synchro_options and not (o == SynchronizationOptions.CORE and no_core)
                           and not (o == SynchronizationOptions.STRICT and no_list), o in self.synchro_options)
                   for o in SynchronizationOptions)

    def post_result_not_empty(self):
        return len(self.synchro_options) > 0

    def exc_ValueError_only_when_nothing_is_left(self, old, exc):
        no_core = len(self.core_identifiers) == 0
        no_list = self.supvisors_list is None or len(self.supvisors_list) == 0
        return forall(SynchronizationOptions, lambda o: implies(
            o in old.self.synchro_options,
            (o == SynchronizationOptions.CORE and no_core) or (o == SynchronizationOptions.STRICT and no_list)))

    def post_timeout_forces_continue(self, old):
        return self.supvisors_failure_strategy == (
            SupvisorsFailureStrategies.CONTINUE if SynchronizationOptions.TIMEOUT in self.synchro_options
            else old.self.supvisors_failure_strategy)


# ======================================================================================================================
# 3. domain checks of the rules parser (sparser.py): "every value outside its domain leaves the default"
# ======================================================================================================================
def xml_text(elt, tag):
    """text of the first <tag> child of the element (None when absent): assumed ElementTree accessor"""
    return uf('xml_text', 'Optional[str]', elt, tag)


def has_text(t):
    return t is not None and t != ''


def seq_valid(t):
    return has_text(t) and uf('int_parses', bool, t) and uf('int_value', int, t) >= 0


def load_valid(t):
    return has_text(t) and uf('int_parses', bool, t) and 0 <= uf('int_value', int, t) and uf('int_value', int, t) <= 100


def bool_valid(t):
    return has_text(t) and uf('bool_like', bool, t)


def enum_valid(t, klass):
    return has_text(t) and any(t == m.name for m in klass)


@contract('sparser:Parser.load_sequence', props=['C18'])
class LoadSequence:
    """statement: 'every value outside its domain (negative sequence ...) leaves the default'; DESIGN C18.3: sets the
    attribute iff the text parses to an int >= 0, otherwise the rule object is unchanged (frame) and nothing escapes.
    Verified once per (attribute, rules class) passed by the callers."""
    raises = ()
    types = {'elt': 'Element'}
    variants = ['attr_string="start_sequence"; rules:ProcessRules', 'attr_string="stop_sequence"; rules:ProcessRules',
                'attr_string="start_sequence"; rules:ApplicationRules', 'attr_string="stop_sequence"; rules:ApplicationRules']

    def modifies(self, attr_string, rules):
        return [field(rules, attr_string)]

    def pre_attribute(self, attr_string):
        return attr_string in ('start_sequence', 'stop_sequence')

    def post_set_iff_in_domain(self, elt, attr_string, rules, old):
        t = xml_text(elt, attr_string)
        return getattr(rules, attr_string) == (uf('int_value', int, t) if seq_valid(t) else getattr(old.rules, attr_string))


@contract('sparser:Parser.load_expected_loading', props=['C18'])
class LoadExpectedLoading:
    """statement: '... expected_loading outside 0-100 ... leaves the default'"""
    raises = ()
    types = {'elt': 'Element'}

    def modifies(self, rules):
        return [field(rules, 'expected_load')]

    def post_set_iff_in_domain(self, elt, rules, old):
        t = xml_text(elt, 'expected_loading')
        return rules.expected_load == (uf('int_value', int, t) if load_valid(t) else old.rules.expected_load)


@contract('sparser:Parser.load_boolean', props=['C18'])
class LoadBoolean:
    """statement: '... non-boolean ... leaves the default'"""
    raises = ()
    types = {'elt': 'Element'}
    variants = ['attr_string="required"; rules:ProcessRules', 'attr_string="wait_exit"; rules:ProcessRules']

    def modifies(self, attr_string, rules):
        return [field(rules, attr_string)]

    def pre_attribute(self, attr_string):
        return attr_string in ('required', 'wait_exit')

    def post_set_iff_boolean_like(self, elt, attr_string, rules, old):
        t = xml_text(elt, attr_string)
        return getattr(rules, attr_string) == (uf('bool_value', bool, t) if bool_valid(t) else getattr(old.rules, attr_string))


@contract('sparser:Parser.load_enum', props=['C18'])
class LoadEnum:
    """statement: '... unknown enumeration ... leaves the default'.  Verified once per (attribute, enumeration, rules
    class) passed by the callers."""
    raises = ()
    types = {'elt': 'Element'}
    variants = ['attr_string="distribution"; klass=DistributionRules; rules:ApplicationRules',
                'attr_string="starting_strategy"; klass=StartingStrategies; rules:ApplicationRules',
                'attr_string="starting_failure_strategy"; klass=StartingFailureStrategies; rules:ApplicationRules',
                'attr_string="running_failure_strategy"; klass=RunningFailureStrategies; rules:ApplicationRules',
                'attr_string="starting_failure_strategy"; klass=StartingFailureStrategies; rules:ProcessRules',
                'attr_string="running_failure_strategy"; klass=RunningFailureStrategies; rules:ProcessRules']

    def modifies(self, attr_string, rules):
        return [field(rules, attr_string)]

    def post_set_iff_member_name(self, elt, attr_string, klass, rules, old):
        t = xml_text(elt, attr_string)
        return getattr(rules, attr_string) == (klass[t] if enum_valid(t, klass) else getattr(old.rules, attr_string))


# ======================================================================================================================
# 1. lookup precedence (sparser.py): "an exact name beats any pattern, among patterns the longest match wins"
# ======================================================================================================================
def pat_matches(p, name):
    """the pattern (wrapped in a capture group, as the code does) is a valid regular expression that matches somewhere
    in the name: assumed re semantics.  A pattern that is not a valid regular expression matches nothing (the XSD accepts
    any string as pattern)."""
    return uf('re_valid', bool, f'({p})') and uf('re_search_matches', bool, f'({p})', name)


def len_match(p, name):
    """length of the text captured by the pattern in the name (DESIGN: len_match(p, name), uninterpreted)"""
    return len(uf('re_group', str, f'({p})', name, 0))


@contract('sparser:Parser.get_best_pattern', props=['C18'])
class GetBestPattern:
    """statement: 'among patterns the longest match wins'; DESIGN C18.1: returns a matching pattern of maximal match
    length, None iff none matches.  Nothing may escape: 'rule lookup terminates and gives the documented result' for
    any XSD-valid file - the XSD accepts ANY string as a pattern (Appendix A25: re.error)."""
    raises = ()
    types = {'patterns': 'Dict[str, Element]', 'matching_patterns': 'List[Tuple[str, str]]'}
    returns = 'Optional[str]'

    def modifies(self):
        return []

    def post_none_iff_nothing_matches(self, name, patterns, result):
        return (result is None) == forall(patterns, lambda p: not pat_matches(p, name))

    def post_a_matching_pattern(self, name, patterns, result):
        return implies(result is not None, result in patterns and pat_matches(result, name))

    def post_of_maximal_match_length(self, name, patterns, result):
        return implies(result is not None,
                       forall(patterns, lambda p: implies(pat_matches(p, name), len_match(p, name) <= len_match(result, name))))

    def loop0_inv(self, seen, name, matching_patterns):
        return (was_fresh(matching_patterns)
                and forall(int, lambda j: implies(0 <= j and j < len(matching_patterns),
                                                  matching_patterns[j][0] in seen
                                                  and pat_matches(matching_patterns[j][0], name)
                                                  and matching_patterns[j][1]
                                                  == uf('re_group', str, f'({matching_patterns[j][0]})', name, 0)))
                and forall(seen, lambda p: implies(pat_matches(p, name),
                                                   exists(int, lambda j: 0 <= j and j < len(matching_patterns)
                                                          and matching_patterns[j][0] == p))))

    def loop0_modifies(self, matching_patterns):
        return [contents(matching_patterns)]


def app_xpath(name):
    return './application[@name="{}"]'.format(name)


def exact_app(parser, k, name):
    """element found by exact name in the k-th rules file (None when there is none): assumed ElementTree accessor"""
    return uf('xml_find', 'Optional[Element]', parser.roots[k], app_xpath(name))


@contract('sparser:Parser.get_application_element', props=['C18'])
class GetApplicationElement:
    """statement: 'an exact name beats any pattern, among patterns the longest match wins'; DESIGN C18.1: an element
    found by exact name is returned regardless of patterns; otherwise the pattern chosen by get_best_pattern."""
    raises = ()
    returns = 'Optional[Element]'
    types = {'application_elt': 'Optional[Element]'}

    def modifies(self):
        return []

    def post_exact_name_first(self, application_name, result):
        return forall(int, lambda k: implies(
            0 <= k and k < len(self.roots) and exact_app(self, k, application_name) is not None
            and forall(int, lambda j: implies(0 <= j and j < k, exact_app(self, j, application_name) is None)),
            result == exact_app(self, k, application_name)))

    def post_else_best_pattern(self, application_name, result):
        nothing_exact = forall(int, lambda k: implies(0 <= k and k < len(self.roots),
                                                      exact_app(self, k, application_name) is None))
        pats = self.application_patterns
        return implies(nothing_exact, ite(
            forall(pats, lambda p: not pat_matches(p, application_name)),
            result is None,
            exists(str, lambda p: p in pats and result == pats[p] and pat_matches(p, application_name)
                   and forall(pats, lambda q: implies(pat_matches(q, application_name),
                                                      len_match(q, application_name) <= len_match(p, application_name))))))

    def loop0_inv(self, k, application_name, application_elt):
        return (application_elt is None
                and forall(int, lambda j: implies(0 <= j and j < k, exact_app(self, j, application_name) is None)))

    def loop0_modifies(self):
        return []


def ns_process(namespec):
    return uf('ns_process', 'Optional[str]', namespec)


def prg_xpath(process_name):
    return f'./programs/program[@name="{process_name}"]'


@contract('sparser:Parser.get_program_element', props=['C18'])
class GetProgramElement:
    """statement: 'an exact name beats any pattern, among patterns the longest match wins' (programs, inside the
    application element chosen by get_application_element); is_pattern tells which of the two happened."""
    raises = ()
    returns = 'Tuple[Optional[Element], bool]'

    def modifies(self):
        return []

    def pre_namespec_of_a_real_process(self, namespec):
        # call sites: namespecs of processes known to Supervisor ('group:process' with a non-empty process name that
        # is not '*'), for which split_namespec returns a process name
        return ns_process(namespec) is not None

    def post_no_application_no_rules(self, namespec, result):
        return implies(result[0] is None, not result[1])

    def post_exact_name_else_best_pattern(self, namespec, result):
        name = ns_process(namespec)
        return implies(result[0] is not None, exists(Element, lambda app: (
            (not result[1] and result[0] == uf('xml_find', 'Optional[Element]', app, prg_xpath(name)))
            or (result[1] and uf('xml_find', 'Optional[Element]', app, prg_xpath(name)) is None
                and app in self.program_patterns
                and exists(str, lambda p: p in self.program_patterns[app] and result[0] == self.program_patterns[app][p]
                           and pat_matches(p, name)
                           and forall(self.program_patterns[app], lambda q: implies(
                               pat_matches(q, name), len_match(q, name) <= len_match(p, name))))))))


@contract('sparser:Parser.get_model_element', props=['C18'])
class GetModelElement:
    """the model named by the <reference> child, None when there is no such child or no such model"""
    raises = ()
    returns = 'Optional[Element]'
    types = {'elt': 'Element'}

    def modifies(self):
        return []

    def post_definition(self, elt, result):
        return result == model_of(self, elt)


def model_of(parser, elt):
    ref = xml_text(elt, 'reference')
    return parser.models[ref] if (ref is not None and ref in parser.models) else None


# ======================================================================================================================
# identifiers (decision logic on the abstract list; alias expansion / sign extraction themselves: bounded stand-in)
# ======================================================================================================================
@contract('sparser:Parser.check_identifier_list', props=['C18'])
class CheckIdentifierList:
    """ASSUMED here (string splitting, list slicing): a new list of strings, nothing else touched, nothing raised.  Its
    functional behaviour (aliases expand in order, duplicates and empty items removed) is exercised on the real function
    by the bounded stand-in of pyvc/structural_c18.py."""
    assumed = True
    raises = ()
    returns = 'List[str]'

    def modifies(self):
        return []

    def post_new_list(self, result):
        return was_fresh(result)


@contract('sparser:Parser.load_identifiers', props=['C18'])
class LoadIdentifiers:
    """frame and sign discipline: only the three identifier lists of the rules may change, nothing escapes; without an
    <identifiers> text nothing changes; a sign leaves the plain list empty and a non-empty '@' / '#' list"""
    raises = ()
    types = {'elt': 'Element'}
    variants = ['rules:ProcessRules', 'rules:ApplicationRules']

    def modifies(self, rules):
        return [field(rules, 'identifiers'), field(rules, 'at_identifiers'), field(rules, 'hash_identifiers')]

    def post_no_text_no_change(self, elt, rules, old):
        return implies(not has_text(xml_text(elt, 'identifiers')),
                       rules.identifiers is old.rules.identifiers and rules.at_identifiers is old.rules.at_identifiers
                       and rules.hash_identifiers is old.rules.hash_identifiers)

    def post_sign_discipline(self, elt, rules, old):
        return (implies(rules.at_identifiers is not old.rules.at_identifiers,
                        len(rules.at_identifiers) > 0 and len(rules.identifiers) == 0)
                and implies(rules.hash_identifiers is not old.rules.hash_identifiers,
                            len(rules.hash_identifiers) > 0 and len(rules.identifiers) == 0))


@contract('sparser:Parser.load_status', props=['C18'])
class LoadStatus:
    """ASSUMED (ast.parse of the formula belongs to C15): only the status formula of the rules may change, nothing
    escapes (ApplicationStatusParseError is caught)"""
    assumed = True
    raises = ()
    types = {'elt': 'Element'}

    def modifies(self, rules):
        return [field(rules, '_status_formula'), field(rules, '_status_tree')]


# ======================================================================================================================
# 2. model references: "followed to depth 3 at most, values set on the element supersede referenced ones"
# ======================================================================================================================
def resolved(parser, elt, below0, n, own):
    """value of one attribute after load_model_rules(elt, rules, n) when it is below0 before: the referenced model (if
    any) is resolved first with depth n - 1, then the element's own valid value supersedes it; depth 0 loads nothing"""
    if n == 0:
        return below0
    m = model_of(parser, elt)
    below = ite(m is not None, resolved(parser, m, below0, n - 1, own), below0)
    return own(elt, below)


def own_seq(elt, tag, below):
    t = xml_text(elt, tag)
    return ite(seq_valid(t), uf('int_value', int, t), below)


def own_bool(elt, tag, below):
    t = xml_text(elt, tag)
    return ite(bool_valid(t), uf('bool_value', bool, t), below)


def own_load(elt, below):
    t = xml_text(elt, 'expected_loading')
    return ite(load_valid(t), uf('int_value', int, t), below)


def own_enum(elt, tag, klass, below):
    t = xml_text(elt, tag)
    return ite(enum_valid(t, klass), klass[t], below)


RULE_FIELDS = ('identifiers', 'at_identifiers', 'hash_identifiers', 'start_sequence', 'stop_sequence', 'required',
               'wait_exit', 'expected_load', 'starting_failure_strategy', 'running_failure_strategy')


@contract('sparser:Parser.load_model_rules', props=['C18'])
class LoadModelRules:
    """statement: 'model references are followed to depth 3 at most, values set on the element supersede referenced
    ones'; DESIGN C18.2: decreases loop_check; for each attribute the final value is the element's if the element sets a
    valid one, else the model chain's (resolved(), unrolled over the depths 0..LOOP_CHECK that occur)."""
    raises = ()
    types = {'program_elt': 'Element'}

    def decreases(self, loop_check):
        return loop_check

    def modifies(self, rules):
        return [field(rules, 'identifiers'), field(rules, 'at_identifiers'), field(rules, 'hash_identifiers'),
                field(rules, 'start_sequence'), field(rules, 'stop_sequence'), field(rules, 'required'),
                field(rules, 'wait_exit'), field(rules, 'expected_load'), field(rules, 'starting_failure_strategy'),
                field(rules, 'running_failure_strategy')]

    def pre_depth(self, loop_check):
        # call sites: Parser.LOOP_CHECK = 3 (load_program_rules) and loop_check - 1 behind the loop_check == 0 test
        return 0 <= loop_check and loop_check <= 3

    def post_depth_zero_loads_nothing(self, loop_check, rules, old):
        return implies(loop_check == 0, rules.identifiers is old.rules.identifiers
                       and rules.at_identifiers is old.rules.at_identifiers
                       and rules.hash_identifiers is old.rules.hash_identifiers)

    def post_start_sequence(self, program_elt, rules, loop_check, old):
        return all(implies(loop_check == n, rules.start_sequence == resolved(
            self, program_elt, old.rules.start_sequence, n, lambda e, b: own_seq(e, 'start_sequence', b))) for n in (0, 1, 2, 3))

    def post_stop_sequence(self, program_elt, rules, loop_check, old):
        return all(implies(loop_check == n, rules.stop_sequence == resolved(
            self, program_elt, old.rules.stop_sequence, n, lambda e, b: own_seq(e, 'stop_sequence', b))) for n in (0, 1, 2, 3))

    def post_required(self, program_elt, rules, loop_check, old):
        return all(implies(loop_check == n, rules.required == resolved(
            self, program_elt, old.rules.required, n, lambda e, b: own_bool(e, 'required', b))) for n in (0, 1, 2, 3))

    def post_wait_exit(self, program_elt, rules, loop_check, old):
        return all(implies(loop_check == n, rules.wait_exit == resolved(
            self, program_elt, old.rules.wait_exit, n, lambda e, b: own_bool(e, 'wait_exit', b))) for n in (0, 1, 2, 3))

    def post_expected_load(self, program_elt, rules, loop_check, old):
        return all(implies(loop_check == n, rules.expected_load == resolved(
            self, program_elt, old.rules.expected_load, n, own_load)) for n in (0, 1, 2, 3))

    def post_starting_failure_strategy(self, program_elt, rules, loop_check, old):
        return all(implies(loop_check == n, rules.starting_failure_strategy == resolved(
            self, program_elt, old.rules.starting_failure_strategy, n,
            lambda e, b: own_enum(e, 'starting_failure_strategy', StartingFailureStrategies, b))) for n in (0, 1, 2, 3))

    def post_running_failure_strategy(self, program_elt, rules, loop_check, old):
        return all(implies(loop_check == n, rules.running_failure_strategy == resolved(
            self, program_elt, old.rules.running_failure_strategy, n,
            lambda e, b: own_enum(e, 'running_failure_strategy', RunningFailureStrategies, b))) for n in (0, 1, 2, 3))


@contract('sparser:Parser.load_program_rules', props=['C18'])
class LoadProgramRules:
    """observation point of the statement (get_process_rules for every name): lookup, bounded model resolution and the
    dependency checks compose without anything escaping; afterwards 'required without a start_sequence is dropped',
    'stop_sequence defaults to start_sequence' (never left negative) and '@' / '#' are never both set"""
    raises = ()

    def modifies(self, rules):
        return [field(rules, 'identifiers'), field(rules, 'at_identifiers'), field(rules, 'hash_identifiers'),
                field(rules, 'start_sequence'), field(rules, 'stop_sequence'), field(rules, 'required'),
                field(rules, 'wait_exit'), field(rules, 'expected_load'), field(rules, 'starting_failure_strategy'),
                field(rules, 'running_failure_strategy')]

    def pre_namespec_of_a_real_process(self, namespec):
        return ns_process(namespec) is not None

    def pre_fresh_rules(self, rules):
        # call sites: rules objects built by ProcessRules.__init__ (class defaults start_sequence = 0)
        return rules.start_sequence >= 0

    def post_required_needs_start_sequence(self, rules):
        return not (rules.required and rules.start_sequence == 0)

    def post_sequences_in_domain(self, rules):
        return rules.start_sequence >= 0 and rules.stop_sequence >= 0

    def post_never_both_signs(self, rules):
        return not (len(rules.at_identifiers) > 0 and len(rules.hash_identifiers) > 0)


@contract('sparser:Parser.load_application_rules', props=['C18'])
class LoadApplicationRules:
    """observation point of the statement (get_application_rules for every name): nothing escapes; an application
    without element stays unmanaged with its defaults; stop_sequence defaults to start_sequence (never left negative)"""
    raises = ()

    def modifies(self, rules):
        return [field(rules, 'managed'), field(rules, 'distribution'), field(rules, 'identifiers'),
                field(rules, 'at_identifiers'), field(rules, 'hash_identifiers'), field(rules, 'start_sequence'),
                field(rules, 'stop_sequence'), field(rules, 'starting_strategy'), field(rules, 'starting_failure_strategy'),
                field(rules, 'running_failure_strategy'), field(rules, '_status_formula'), field(rules, '_status_tree')]

    def pre_fresh_rules(self, rules):
        # call sites: rules objects built by ApplicationRules.__init__ (class defaults, no '#' list yet)
        return rules.start_sequence >= 0 and not rules.managed and len(rules.hash_identifiers) == 0

    def pre_mapper_knows_the_local_instance(self, rules):
        return mapper_valid(rules)

    def pre_regex_semantics_of_the_literal_pattern(self):
        return literal_regex_facts()

    def post_unmanaged_keeps_defaults(self, rules, old):
        return implies(not rules.managed,
                       rules.start_sequence == old.rules.start_sequence and rules.distribution == old.rules.distribution
                       and rules.identifiers is old.rules.identifiers
                       and rules.starting_strategy == old.rules.starting_strategy
                       and rules.starting_failure_strategy == old.rules.starting_failure_strategy
                       and rules.running_failure_strategy == old.rules.running_failure_strategy)

    def post_sequences_in_domain(self, rules):
        return rules.start_sequence >= 0 and rules.stop_sequence >= 0


def period_ok(text):
    return uf('float_parses', bool, text) and period_in_range(uf('float_value', 'fp64', text))


@contract('options:SupvisorsOptions._get_value', props=['C18'])
class GetValue:
    """statement: 'every [supvisors] option outside its documented range falls back to its default'; DESIGN C18.5:
    _get_value returns the default on ValueError and lets nothing else escape.  Verified once per converter passed by
    __init__ (the converter's own contract gives what it may raise)."""
    raises = ()
    types = {'config': 'Dict[str, str]'}
    variants = ['default_value=1; fct=SupvisorsOptions.to_ttl', 'default_value=0; fct=SupvisorsOptions.to_port_num',
                'default_value=15; fct=SupvisorsOptions.to_timeout', 'default_value=2; fct=SupvisorsOptions.to_ticks',
                'default_value=200; fct=SupvisorsOptions.to_histo', 'default_value=5; fct=SupvisorsOptions.to_period',
                'default_value=EventLinks.NONE; fct=SupvisorsOptions.to_event_link',
                'default_value=ConciliationStrategies.USER; fct=SupvisorsOptions.to_conciliation_strategy',
                'default_value=StartingStrategies.CONFIG; fct=SupvisorsOptions.to_starting_strategy',
                'default_value=SupvisorsFailureStrategies.CONTINUE; fct=SupvisorsOptions.to_supvisors_failure_strategy',
                'default_value=SupvisorsOptions.SYNCHRO_DEFAULT_OPTIONS; fct=SupvisorsOptions.to_synchro_options',
                'default_value=(True, True); fct=SupvisorsOptions.to_statistics_type',
                'default_value=""; fct=None']

    def modifies(self):
        return []

    def post_absent_option_gives_the_default_object_itself(self, config, attr, default_value, result):
        return implies(attr not in config, same(result, default_value))

    def post_no_converter_gives_the_text(self, config, attr, fct, result):
        return implies(attr in config and fct is None, result == config[attr])
