"""C18 - Rules and options resolve totally, in-domain, with documented precedence.

Deductive part: the decision logic of the rules parser (lookup precedence, best pattern, bounded model recursion,
domain checks), of the dependency checks of ProcessRules / ApplicationRules and of the [supvisors] option converters.
Everything that computes on the *contents* of strings (int(), float(), re, ElementTree, list_of_strings ...) is an
assumed external whose result is an uninterpreted function of its arguments (contracts/externals.py); the string-level
pieces themselves are exercised by the bounded stand-ins of pyvc/structural_c18.py (never counted as proved).
"""
from pyvc.spec import *


# ======================================================================================================================
# 4. dependency checks (process.py / application.py)
# ======================================================================================================================
@contract('process:ProcessRules.check_dependencies', props=['C18'])
class ProcessRulesCheckDependencies:
    """statement: 'required without a start_sequence is dropped, stop_sequence defaults to start_sequence'; DESIGN C18.4:
    '@/# outside a pattern reset to ["*"]; both signs => # dropped'.  Whole view: everything else is unchanged."""
    raises = ()

    def modifies(self):
        return [field(self, 'identifiers'), field(self, 'at_identifiers'), field(self, 'hash_identifiers'),
                field(self, 'required'), field(self, 'stop_sequence')]

    def post_required_needs_start_sequence(self, old):
        return self.required == (old.self.required and old.self.start_sequence != 0)

    def post_stop_sequence_defaults_to_start_sequence(self, old):
        return (self.stop_sequence == (old.self.start_sequence if old.self.stop_sequence < 0 else old.self.stop_sequence)
                and self.start_sequence == old.self.start_sequence)

    def post_signs_outside_pattern_reset(self, is_pattern, old):
        return implies(not is_pattern and (len(old.self.at_identifiers) > 0 or len(old.self.hash_identifiers) > 0),
                       self.identifiers == ['*'] and self.at_identifiers == [] and self.hash_identifiers == [])

    def post_both_signs_hash_dropped(self, is_pattern, old):
        return implies(is_pattern and len(old.self.at_identifiers) > 0 and len(old.self.hash_identifiers) > 0,
                       self.hash_identifiers == [] and self.at_identifiers is old.self.at_identifiers
                       and self.identifiers is old.self.identifiers)

    def post_otherwise_identifiers_untouched(self, is_pattern, old):
        at, hsh = len(old.self.at_identifiers) > 0, len(old.self.hash_identifiers) > 0
        return implies((is_pattern and not (at and hsh)) or (not at and not hsh),
                       self.identifiers is old.self.identifiers and self.at_identifiers is old.self.at_identifiers
                       and self.hash_identifiers is old.self.hash_identifiers)

    def post_never_both_signs(self):
        return not (len(self.at_identifiers) > 0 and len(self.hash_identifiers) > 0)


@contract('application:ApplicationRules.check_hash_identifiers', props=['C18'])
class ApplicationRulesCheckHashIdentifiers:
    """DESIGN C18.4: 'check_hash_identifiers index arithmetic ((n-1) mod len), safe:ZeroDivisionError when
    ref_identifiers = []'.  The application number n is the integer captured by the trailing [-_]<digits> of the name
    (assumed regex semantics); without it, or with n = 0, the application cannot be started automatically."""
    raises = ()

    def modifies(self):
        return [field(self, 'identifiers'), field(self, 'start_sequence')]

    def pre_called_with_hash(self):
        # only call site: ApplicationRules.check_dependencies, under `if self.hash_identifiers`
        return len(self.hash_identifiers) > 0

    def pre_mapper_knows_the_local_instance(self):
        # structural validity of SupvisorsMapper (DESIGN 1.4): configure() registers at least the local instance before
        # any rule is loaded and instances are never removed
        return len(self.supvisors.mapper.instances) > 0

    def pre_regex_semantics_of_the_literal_pattern(self):
        # assumed facts about the LITERAL pattern r'.*[-_](\d+)$' (checked on samples by the bounded stand-in): it is a
        # valid regular expression, and its group 1 is a non-empty run of decimal digits, which int() accepts
        return (uf('re_valid', bool, '.*[-_](\\d+)$')
                and forall(str, lambda s: implies(app_has_index(s), uf('int_parses', bool, uf('re_group', str, '.*[-_](\\d+)$', s, 1))
                                                  and app_index(s) >= 0)))

    def post_no_index_no_automatic_start(self, application_name, old):
        return implies(not app_has_index(application_name) or app_index(application_name) < 1,
                       self.start_sequence == 0 and self.identifiers is old.self.identifiers)

    def post_rolling_index(self, application_name, old):
        n = app_index(application_name)
        return implies(app_has_index(application_name) and n >= 1 and '*' not in self.hash_identifiers,
                       len(self.identifiers) == 1 and self.start_sequence == old.self.start_sequence
                       and self.identifiers[0] == self.hash_identifiers[(n - 1) % len(self.hash_identifiers)])

    def post_wildcard_uses_known_instances(self, application_name, old):
        n = app_index(application_name)
        return implies(app_has_index(application_name) and n >= 1 and '*' in self.hash_identifiers,
                       len(self.identifiers) == 1 and self.identifiers[0] in self.supvisors.mapper.instances
                       and self.start_sequence == old.self.start_sequence)


def mapper_valid(rules):
    """structural validity of SupvisorsMapper (DESIGN 1.4): configure() registers at least the local instance before any
    rule is loaded and instances are never removed"""
    return len(rules.supvisors.mapper.instances) > 0


def literal_regex_facts():
    """assumed facts about the LITERAL pattern r'.*[-_](\\d+)$' (checked on samples by the bounded stand-in): it is a
    valid regular expression, and its group 1 is a non-empty run of decimal digits, which int() accepts"""
    return (uf('re_valid', bool, '.*[-_](\\d+)$')
            and forall(str, lambda s: implies(app_has_index(s),
                                              uf('int_parses', bool, uf('re_group', str, '.*[-_](\\d+)$', s, 1))
                                              and app_index(s) >= 0)))


def app_has_index(name):
    return uf('re_match_matches', bool, '.*[-_](\\d+)$', name)


def app_index(name):
    return uf('int_value', int, uf('re_group', str, '.*[-_](\\d+)$', name, 1))


@contract('application:ApplicationRules.check_dependencies', props=['C18'])
class ApplicationRulesCheckDependencies:
    """statement: 'stop_sequence defaults to start_sequence' (the start_sequence used is the one read from the file, the
    '#' resolution may afterwards reset start_sequence to 0 when the application name carries no index)"""
    raises = ()

    def modifies(self):
        return [field(self, 'identifiers'), field(self, 'start_sequence'), field(self, 'stop_sequence')]

    def pre_mapper_knows_the_local_instance(self):
        return mapper_valid(self)

    def pre_regex_semantics_of_the_literal_pattern(self):
        return literal_regex_facts()

    def post_stop_sequence_defaults_to_start_sequence(self, old):
        return self.stop_sequence == (old.self.start_sequence if old.self.stop_sequence < 0 else old.self.stop_sequence)

    def post_without_hash_untouched(self, old):
        return implies(len(self.hash_identifiers) == 0,
                       self.identifiers is old.self.identifiers and self.start_sequence == old.self.start_sequence)

    def post_with_hash_single_identifier_or_no_start(self, old):
        return implies(len(self.hash_identifiers) > 0,
                       (len(self.identifiers) == 1 and self.start_sequence == old.self.start_sequence)
                       or (self.start_sequence == 0 and self.identifiers is old.self.identifiers))


# ======================================================================================================================
# 5. [supvisors] options (options.py)
# ======================================================================================================================
def int_ok(text, lo, hi):
    """the text denotes an integer of the documented range"""
    return uf('int_parses', bool, text) and lo <= uf('int_value', int, text) and uf('int_value', int, text) <= hi


@contract('options:SupvisorsOptions.to_integer', props=['C18'])
class ToInteger:
    """statement: 'every [supvisors] option outside its documented range falls back to its default': the converter
    returns the integer denoted iff it lies within the inclusive limits, and raises ValueError (only) otherwise"""
    raises = ('ValueError',)

    def modifies():
        return []

    def post_in_range(value, limits, result):
        return int_ok(value, limits[0], limits[1]) and result == uf('int_value', int, value)

    def exc_ValueError_out_of_range(value, limits, exc):
        return not int_ok(value, limits[0], limits[1])


@contract('options:SupvisorsOptions.to_ttl', props=['C18'])
class ToTtl:
    """documented range of multicast_ttl: [0;255]"""
    raises = ('ValueError',)

    def modifies():
        return []

    def post_in_range(value, result):
        return int_ok(value, 0, 255) and result == uf('int_value', int, value)

    def exc_ValueError_out_of_range(value, exc):
        return not int_ok(value, 0, 255)


@contract('options:SupvisorsOptions.to_port_num', props=['C18'])
class ToPortNum:
    """documented range of event_port / multicast port: [1;65535]"""
    raises = ('ValueError',)

    def modifies():
        return []

    def post_in_range(value, result):
        return int_ok(value, 1, 65535) and result == uf('int_value', int, value)

    def exc_ValueError_out_of_range(value, exc):
        return not int_ok(value, 1, 65535)


@contract('options:SupvisorsOptions.to_timeout', props=['C18'])
class ToTimeout:
    """documented range of synchro_timeout: [15;1200]"""
    raises = ('ValueError',)

    def modifies():
        return []

    def post_in_range(value, result):
        return int_ok(value, 15, 1200) and result == uf('int_value', int, value)

    def exc_ValueError_out_of_range(value, exc):
        return not int_ok(value, 15, 1200)


@contract('options:SupvisorsOptions.to_ticks', props=['C18'])
class ToTicks:
    """documented range of inactivity_ticks: [2;720]"""
    raises = ('ValueError',)

    def modifies():
        return []

    def post_in_range(value, result):
        return int_ok(value, 2, 720) and result == uf('int_value', int, value)

    def exc_ValueError_out_of_range(value, exc):
        return not int_ok(value, 2, 720)


@contract('options:SupvisorsOptions.to_histo', props=['C18'])
class ToHisto:
    """documented range of stats_histo: [10;1500]"""
    raises = ('ValueError',)

    def modifies():
        return []

    def post_in_range(value, result):
        return int_ok(value, 10, 1500) and result == uf('int_value', int, value)

    def exc_ValueError_out_of_range(value, exc):
        return not int_ok(value, 10, 1500)


@contract('options:SupvisorsOptions.to_event_link', props=['C18'])
class ToEventLink:
    """the enumeration member whose name is the upper-cased text, ValueError (only) when there is none"""
    raises = ('ValueError',)

    def modifies():
        return []

    def post_member(value, result):
        return result.name == uf('str_upper', str, value)

    def exc_ValueError_unknown(value, exc):
        return not any(uf('str_upper', str, value) == m.name for m in EventLinks)


@contract('options:SupvisorsOptions.to_conciliation_strategy', props=['C18'])
class ToConciliationStrategy:
    raises = ('ValueError',)

    def modifies():
        return []

    def post_member(value, result):
        return result.name == uf('str_upper', str, value)

    def exc_ValueError_unknown(value, exc):
        return not any(uf('str_upper', str, value) == m.name for m in ConciliationStrategies)


@contract('options:SupvisorsOptions.to_starting_strategy', props=['C18'])
class ToStartingStrategy:
    raises = ('ValueError',)

    def modifies():
        return []

    def post_member(value, result):
        return result.name == uf('str_upper', str, value)

    def exc_ValueError_unknown(value, exc):
        return not any(uf('str_upper', str, value) == m.name for m in StartingStrategies)


@contract('options:SupvisorsOptions.to_supvisors_failure_strategy', props=['C18'])
class ToSupvisorsFailureStrategy:
    raises = ('ValueError',)

    def modifies():
        return []

    def post_member(value, result):
        return result.name == uf('str_upper', str, value)

    def exc_ValueError_unknown(value, exc):
        return not any(uf('str_upper', str, value) == m.name for m in SupvisorsFailureStrategies)


@contract('options:SupvisorsOptions.to_synchro_options', props=['C18'])
class ToSynchroOptions:
    """a list of SynchronizationOptions members without duplicates, ValueError (only) when a name is unknown"""
    raises = ('ValueError',)
    types = {'option_list': 'List[SynchronizationOptions]'}

    def modifies():
        return []

    def post_no_duplicates(result):
        return forall(int, int, lambda i, j: implies(0 <= i and i < j and j < len(result), result[i] != result[j]))

    def post_new_list(result):
        return was_fresh(result)

    def loop0_inv(k, option_list):
        return (was_fresh(option_list)
                and forall(int, int, lambda i, j: implies(0 <= i and i < j and j < len(option_list),
                                                          option_list[i] != option_list[j])))

    def loop0_modifies(option_list):
        return [contents(option_list)]


@contract('options:SupvisorsOptions.to_statistics_type', props=['C18'])
class ToStatisticsType:
    """a pair of booleans, ValueError (only) for an empty list or a text that is neither a StatisticsTypes name nor
    boolean-like"""
    raises = ('ValueError',)
    types = {'stats_types': 'List[StatisticsTypes]'}

    def modifies():
        return []

    def loop0_inv(k, stats_types):
        return was_fresh(stats_types)

    def loop0_modifies(stats_types):
        return [contents(stats_types)]


def period_in_range(p):
    return 1.0 <= p and p <= 3600.0


@contract('options:SupvisorsOptions.to_period', props=['C18'])
class ToPeriod:
    """documented range of stats_collecting_period: [1.0;3600.0] seconds; IEEE comparisons on the parsed float"""
    raises = ('ValueError',)
    returns = 'fp64'

    def modifies():
        return []

    def post_in_range(value, result):
        return period_in_range(result)

    def post_value(value, result):
        return same(result, uf('float_value', 'fp64', value))

    def exc_ValueError_out_of_range(value, exc):
        return not (uf('float_parses', bool, value) and period_in_range(uf('float_value', 'fp64', value)))


@contract('options:SupvisorsOptions.to_periods', props=['C18'])
class ToPeriods:
    """1 to 3 periods, each within [1.0;3600.0] seconds"""
    raises = ('ValueError',)
    returns = 'List[fp64]'
    types = {'periods': 'List[fp64]'}

    def modifies():
        return []

    def post_count(result):
        return 1 <= len(result) and len(result) <= 3

    def post_each_in_range(result):
        return forall(int, lambda j: implies(0 <= j and j < len(result), period_in_range(result[j])))

    def loop0_inv(k, periods, str_periods):
        # what the code guarantees: the two negated comparisons of the range test
        return (was_fresh(periods) and len(periods) == k and 1 <= len(str_periods) and len(str_periods) <= 3
                and forall(int, lambda j: implies(0 <= j and j < len(periods),
                                                  not (1.0 > periods[j]) and not (periods[j] > 3600.0))))

    def loop0_modifies(periods):
        return [contents(periods)]


def no_duplicates(lst):
    return forall(int, int, lambda i, j: implies(0 <= i and i < j and j < len(lst), lst[i] != lst[j]))


@contract('options:SupvisorsOptions.check_options', props=['C18'])
class CheckOptions:
    """statement: 'only an empty resulting synchro_options is refused, CORE / STRICT are dropped when their lists are
    empty and TIMEOUT forces supvisors_failure_strategy to CONTINUE'; Appendix A7: 'defaults unaffected by one
    instance's resolution' (the class-level default list SYNCHRO_DEFAULT_OPTIONS is modelled as ONE heap object; after
    __init__ without a synchro_options entry, self.synchro_options IS that object)."""
    raises = ('ValueError',)

    def modifies(self):
        return [contents(self.synchro_options), field(self, 'supvisors_failure_strategy')]

    def pre_no_duplicates(self):
        # synchro_options is either the class default (three distinct members) or the result of to_synchro_options,
        # whose contract above proves the absence of duplicates
        return no_duplicates(self.synchro_options)

    def post_core_dropped_without_core_identifiers(self):
        return implies(len(self.core_identifiers) == 0, SynchronizationOptions.CORE not in self.synchro_options)

    def post_strict_dropped_without_supvisors_list(self):
        return implies(self.supvisors_list is None or len(self.supvisors_list) == 0,
                       SynchronizationOptions.STRICT not in self.synchro_options)

    def post_nothing_else_dropped(self, old):
        no_core = len(self.core_identifiers) == 0
        no_list = self.supvisors_list is None or len(self.supvisors_list) == 0
        return all(implies(o in old.self.synchro_options and not (o == SynchronizationOptions.CORE and no_core)
                           and not (o == SynchronizationOptions.STRICT and no_list), o in self.synchro_options)
                   for o in SynchronizationOptions)

    def post_result_not_empty(self):
        return len(self.synchro_options) > 0

    def exc_ValueError_only_when_nothing_is_left(self, old, exc):
        no_core = len(self.core_identifiers) == 0
        no_list = self.supvisors_list is None or len(self.supvisors_list) == 0
        return forall(SynchronizationOptions, lambda o: implies(
            o in old.self.synchro_options,
            (o == SynchronizationOptions.CORE and no_core) or (o == SynchronizationOptions.STRICT and no_list)))

    def post_timeout_forces_continue(self, old):
        return self.supvisors_failure_strategy == (
            SupvisorsFailureStrategies.CONTINUE if SynchronizationOptions.TIMEOUT in self.synchro_options
            else old.self.supvisors_failure_strategy)


# ======================================================================================================================
# 3. domain checks of the rules parser (sparser.py): "every value outside its domain leaves the default"
# ======================================================================================================================
def xml_text(elt, tag):
    """text of the first <tag> child of the element (None when absent): assumed ElementTree accessor"""
    return uf('xml_text', 'Optional[str]', elt, tag)


def has_text(t):
    return t is not None and t != ''


def seq_valid(t):
    return has_text(t) and uf('int_parses', bool, t) and uf('int_value', int, t) >= 0


def load_valid(t):
    return has_text(t) and uf('int_parses', bool, t) and 0 <= uf('int_value', int, t) and uf('int_value', int, t) <= 100


def bool_valid(t):
    return has_text(t) and uf('bool_like', bool, t)


def enum_valid(t, klass):
    return has_text(t) and any(t == m.name for m in klass)


@contract('sparser:Parser.load_sequence', props=['C18'])
class LoadSequence:
    """statement: 'every value outside its domain (negative sequence ...) leaves the default'; DESIGN C18.3: sets the
    attribute iff the text parses to an int >= 0, otherwise the rule object is unchanged (frame) and nothing escapes.
    Verified once per (attribute, rules class) passed by the callers."""
    raises = ()
    types = {'elt': 'Element'}
    variants = ['attr_string="start_sequence"; rules:ProcessRules', 'attr_string="stop_sequence"; rules:ProcessRules',
                'attr_string="start_sequence"; rules:ApplicationRules', 'attr_string="stop_sequence"; rules:ApplicationRules']

    def modifies(self, attr_string, rules):
        return [field(rules, attr_string)]

    def pre_attribute(self, attr_string):
        return attr_string in ('start_sequence', 'stop_sequence')

    def post_set_iff_in_domain(self, elt, attr_string, rules, old):
        t = xml_text(elt, attr_string)
        return getattr(rules, attr_string) == (uf('int_value', int, t) if seq_valid(t) else getattr(old.rules, attr_string))


@contract('sparser:Parser.load_expected_loading', props=['C18'])
class LoadExpectedLoading:
    """statement: '... expected_loading outside 0-100 ... leaves the default'"""
    raises = ()
    types = {'elt': 'Element'}

    def modifies(self, rules):
        return [field(rules, 'expected_load')]

    def post_set_iff_in_domain(self, elt, rules, old):
        t = xml_text(elt, 'expected_loading')
        return rules.expected_load == (uf('int_value', int, t) if load_valid(t) else old.rules.expected_load)


@contract('sparser:Parser.load_boolean', props=['C18'])
class LoadBoolean:
    """statement: '... non-boolean ... leaves the default'"""
    raises = ()
    types = {'elt': 'Element'}
    variants = ['attr_string="required"; rules:ProcessRules', 'attr_string="wait_exit"; rules:ProcessRules']

    def modifies(self, attr_string, rules):
        return [field(rules, attr_string)]

    def pre_attribute(self, attr_string):
        return attr_string in ('required', 'wait_exit')

    def post_set_iff_boolean_like(self, elt, attr_string, rules, old):
        t = xml_text(elt, attr_string)
        return getattr(rules, attr_string) == (uf('bool_value', bool, t) if bool_valid(t) else getattr(old.rules, attr_string))


@contract('sparser:Parser.load_enum', props=['C18'])
class LoadEnum:
    """statement: '... unknown enumeration ... leaves the default'.  Verified once per (attribute, enumeration, rules
    class) passed by the callers."""
    raises = ()
    types = {'elt': 'Element'}
    variants = ['attr_string="distribution"; klass=DistributionRules; rules:ApplicationRules',
                'attr_string="starting_strategy"; klass=StartingStrategies; rules:ApplicationRules',
                'attr_string="starting_failure_strategy"; klass=StartingFailureStrategies; rules:ApplicationRules',
                'attr_string="running_failure_strategy"; klass=RunningFailureStrategies; rules:ApplicationRules',
                'attr_string="starting_failure_strategy"; klass=StartingFailureStrategies; rules:ProcessRules',
                'attr_string="running_failure_strategy"; klass=RunningFailureStrategies; rules:ProcessRules']

    def modifies(self, attr_string, rules):
        return [field(rules, attr_string)]

    def post_set_iff_member_name(self, elt, attr_string, klass, rules, old):
        t = xml_text(elt, attr_string)
        return getattr(rules, attr_string) == (klass[t] if enum_valid(t, klass) else getattr(old.rules, attr_string))
