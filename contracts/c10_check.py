"""C10 clause 2 / C16 - ApplicationJobs.check, the periodic time-out check of the commands in flight.

Decision facets (docs/ENGINE.md section 8): small contracts of the same function, one clause each, so that a breaking edit
is REFUTED (counter-model) instead of left undecided.  The call-out fail_command RE-ENTERS the job
(listener.force_process_state -> fsm.on_process_state_event(LOCAL status, forced payload) -> starter / stopper.on_event
(process, LOCAL identifier) -> ApplicationJobs.on_event -> next()): what the proofs of this file assume about it is written
once, in FailCommandCallOut below, from the code of that chain.
"""
from pyvc.spec import *

GROUP = 'commander'   # contracts of one group use each other's contracts at call sites (pyvc/hooks.py contract_for_call)
from contracts.c10 import target_info_known, timed_out_result, STOPPED_LIKE
from contracts.assumed_repo import job_discipline, in_plan

START_DONE = (ProcessStates.EXITED, ProcessStates.FATAL, ProcessStates.STOPPED, ProcessStates.STOPPING, ProcessStates.UNKNOWN)
WIRING = ('F:supvisors:', 'F:listener:', 'F:context:', 'F:mapper:', 'F:local_identifier:', 'F:instances:', 'F:process_name:')


def wired(j):
    """shape validity (same as FailCommand.pre_root): one Supvisors root, whose local identifier is a key of instances"""
    return (j.supvisors.listener.supvisors is j.supvisors
            and j.supvisors.context.local_identifier in j.supvisors.context.instances)


def held(c):
    """rigid ghost predicate: the command was in flight in the job when the running check() started, i.e. it belongs to
    the copy list(self.current_jobs) that check() iterates.  Only constrained by the precondition of the facets
    (every member of the in-flight list on entry is held), which holds for a suitable interpretation in every state."""
    return ghost_bool('in_flight_when_check_started', c)


def event_says_done(c):
    """ProcessStartCommand.on_event / ProcessStopCommand.on_event (contracts StartOnEvent / StopOnEvent) answer SUCCESS or
    FAILED: the only case in which ApplicationJobs.on_event removes the command"""
    st = c.process.info_map[c.identifier]['state']
    return ite(isinstance(c, ProcessStartCommand),
               (st == ProcessStates.RUNNING and (not c.process.rules.wait_exit or c.ignore_wait_exit)) or st in START_DONE,
               st in STOPPED_LIKE)


def verdict_untouched(c, old):
    """everything timed_out() / on_event() read about the command c is as before"""
    o = old(c)
    return (c.process is o.process and c.identifier == o.identifier and c.instance_status is o.instance_status
            and c.request_sequence_counter == o.request_sequence_counter and c._wait_ticks == o._wait_ticks
            and c.minimum_ticks == o.minimum_ticks
            and implies(o.identifier is not None and o.identifier in o.process.info_map,
                        c.identifier in c.process.info_map
                        and c.process.info_map[c.identifier] is o.process.info_map[o.identifier]
                        and ('state' in c.process.info_map[c.identifier]) == ('state' in o.process.info_map[o.identifier])
                        and ('event_time' in c.process.info_map[c.identifier]) == ('event_time' in o.process.info_map[o.identifier])
                        and c.process.info_map[c.identifier]['state'] == o.process.info_map[o.identifier]['state']
                        and c.process.info_map[c.identifier]['event_time'] == o.process.info_map[o.identifier]['event_time'])
            and implies(o.instance_status is not None,
                        c.instance_status.times is o.instance_status.times
                        and c.instance_status.times.remote_sequence_counter == o.instance_status.times.remote_sequence_counter)
            and c.process.rules is o.process.rules and c.process.rules.wait_exit == o.process.rules.wait_exit
            and implies(isinstance(c, ProcessStartCommand),
                        narrow(c, ProcessStartCommand).ignore_wait_exit == narrow(o, ProcessStartCommand).ignore_wait_exit))


def plan_shape(j):
    """preconditions of ApplicationJobs.next (contracts/c03.py JobsNext)"""
    return (forall(int, lambda s: implies(s in j.planned_jobs, j.planned_jobs[s] is not j.current_jobs))
            and implies(isinstance(j, ApplicationStopJobs),
                        forall(int, lambda s: implies(s in j.planned_jobs, forall(j.planned_jobs[s], lambda c: (
                            c.instance_status is not None and c.identifier is not None))))))


@contract('commander:ApplicationJobs.fail_command', props=[])
class FailCommandCallOut:
    """ASSUMED: fail_command as the RE-ENTRANT call-out of ApplicationJobs.check, as seen from the job `self` (the function
    itself is verified by contracts/c10.py FailCommand: one force_process_state with FATAL / STOPPED; what is written here
    is what the re-entered code - outside any modular proof - does to the job, read from the code of the chain):
    * statemachine.py on_process_state_event(status=LOCAL status, event): the forced event is applied by
      Context.on_process_state_event -> ProcessStatus.force_state, which writes forced_state / forced_reason only (no
      info_map record, no tick counter), then starter.on_event(process, LOCAL identifier), stopper.on_event(...);
    * Commander.on_event -> ApplicationJobs.on_event(process, LOCAL identifier): get_current_command(process.process_name,
      identifier) - a command of the SAME process name targeted on the LOCAL instance - is removed from the in-flight list
      iff its on_event() answers SUCCESS / FAILED; nothing else leaves the list;
    * ApplicationJobs.next() / Commander.next(): commands only enter an in-flight list from the plan of their own job,
      once (the list stays duplicate-free); update_identifier / start() / stop() only write commands that sit in a plan or
      are being added to one (commander.py: on_command_added, distribute_to_single_node, distribute_to_single_instance,
      process_job; a stop command gets its target in its constructor and keeps it); a command that has been triggered
      never returns to a plan (plans only receive commands created by the call that plans them), so the commands held by
      the running check() - in flight when it started - are left alone and do not come back once they have left;
    * planned groups are not mutated (ApplicationJobs.next pops whole groups; add_commands appends to the plan of another
      kind of job or creates a new group - known exclusion FsmOnProcessStateEvent: Stopper.after -> starter.start_process).
    HONEST about the defect findings/C10_check_valueerror_demo.py: commands that the caller still holds in its loop copy MAY
    have left the in-flight list when the call returns."""
    assumed = True
    raises = ('KeyError',)
    effect = 'fail_command'

    def modifies(self, process, identifier, event_time, reason):
        return [everything_but(*WIRING, contents(self.supvisors.context.instances),
                               contents(self.supvisors.mapper.instances))]

    def pre_root(self):
        return wired(self)

    def post_discipline(self, old):
        return job_discipline(self, old)

    def post_only_done_commands_of_that_process_on_the_local_instance_leave(self, process, old):
        local = old.self.supvisors.context.local_identifier
        return forall(old.self.current_jobs, lambda c: c in self.current_jobs or (
            c.process.process_name == process.process_name and c.identifier == local and event_says_done(c)))

    def post_in_flight_list_stays_duplicate_free(self, old):
        return implies(duplicate_free(old.self.current_jobs), duplicate_free(self.current_jobs))

    def post_held_commands_are_left_alone(self, old):
        return forall(ProcessCommand, lambda c: implies(is_alloc(old(c)) and held(c), verdict_untouched(c, old)))

    def post_held_commands_do_not_come_back(self, old):
        return forall(ProcessCommand, lambda c: implies(is_alloc(old(c)) and held(c) and c not in old.self.current_jobs,
                                                        c not in self.current_jobs))

    def post_plan_shape_kept(self, old):
        """planned groups are not mutated and a stop command keeps the target its constructor gave it (see above): the
        preconditions of ApplicationJobs.next() survive the call-out (same form as StartProcessJob.post_shape_kept)"""
        return implies(plan_shape(old.self), plan_shape(self))

    def exc_KeyError_unknown_target(self, identifier, old):
        return identifier != '' and identifier not in old.self.supvisors.mapper.instances


# ---------------------------------------------------------------------------------------------------- the facets
def check_pre(j):
    """shape validity of a job whose check() is called: wiring; the preconditions of next(); every command in flight is
    an allocated object, targeted on an instance that knows the program (object invariant of a command in flight, see
    contracts/c10.py target_info_known), and - definition of the ghost - held"""
    return (wired(j) and plan_shape(j)
            and forall(j.current_jobs, lambda c: is_alloc(c) and target_info_known(c) and held(c)))


def check_inv(j, seq, loop_old):
    """the same, for the commands of the copy that check() iterates (they may have left the in-flight list)"""
    return (j.current_jobs is loop_old.self.current_jobs and j.supvisors is loop_old.self.supvisors and wired(j)
            and plan_shape(j)
            and forall(seq, lambda c: is_alloc(now(c))) and forall(seq, lambda c: held(c))
            and forall(seq, lambda c: now(c).identifier is not None and now(c).instance_status is not None)
            and forall(seq, lambda c: now(c).identifier in now(c).process.info_map)
            and forall(seq, lambda c: 'state' in now(c).process.info_map[now(c).identifier]
                       and 'event_time' in now(c).process.info_map[now(c).identifier]))


@contract('commander:ApplicationJobs.check', props=['C10'])
class CheckPerCommand:
    """C10: 'if the expected STARTING/STOPPING acknowledgement is not seen within the tick margin, or RUNNING/STOPPED
    within that margin plus the program's startsecs/stopwaitsecs ... the job is abandoned, the process is reported FATAL
    (start) or STOPPED (stop) with an explanatory reason'.  Per command of the in-flight list (one iteration, in the state
    in which the command is examined): TIMED_OUT => exactly one fail_command(its process, its target, the time of the last
    event) (FailCommand: forced FATAL / STOPPED); otherwise nothing is emitted.  Proved under the invariant that the
    commands of the copy stay targeted across the re-entrant call-outs; the preconditions of the final next() are
    established (call-pre obligations)."""
    variants = ['ApplicationStartJobs', 'ApplicationStopJobs']
    # ValueError (list.remove): facet CheckRemovals + finding C10-check-valueerror; KeyError: fail_command on a target that
    # the mapper does not know (FailCommand.exc_KeyError_unknown_target), not decided here
    raises = ('ValueError', 'KeyError')

    def pre_shape(self):
        return check_pre(self)

    def loop0_effects(self):
        return ('fail_command',)

    def loop0_inv(self, k, seq, loop_old):
        return check_inv(self, seq, loop_old)

    def loop0_iter_timed_out_is_reported_failed(self, k, command, iter_old):
        r = timed_out_result(iter_old(command))
        e = effect_at('fail_command', 0)
        info = iter_old(command).process.info_map[iter_old(command).identifier]
        one = (e[0] is command.process and e[1] == command.identifier and e[2] == info['event_time']) \
            if count_effects('fail_command') == 1 else False
        return ite(r == ProcessRequestResult.TIMED_OUT, one, no_effect())


@contract('commander:ApplicationJobs.check', props=['C10', 'C16'])
class CheckRemovals:
    """C10: '... the job is abandoned ... and the sequence moves on'; C16 'handling it never raises an internal error'.
    Per command examined: (1) code comment 'this is done BEFORE the forced state is sent because the event will come back
    immediately in the on_event method': when fail_command is called - the call-out that re-enters on_event / next() -
    the timed-out command has ALREADY left the in-flight list (a removal after the call-out finds a list that the
    re-entered code may have changed: ValueError, or a command that on_event already retired);  (2) a command whose
    timed_out() says TIMED_OUT or SUCCESS is no longer in flight at the end of its iteration;  (3) a command still
    IN_PROGRESS leaves the in-flight list exactly as it was."""
    variants = ['ApplicationStartJobs', 'ApplicationStopJobs']
    raises = ('ValueError', 'KeyError')      # see CheckNoValueError for list.remove

    def pre_shape(self):
        return check_pre(self) and duplicate_free(self.current_jobs)

    def loop0_effects(self):
        return ('fail_command',)

    def loop0_inv(self, k, seq, loop_old):
        return check_inv(self, seq, loop_old) and duplicate_free(self.current_jobs)

    def loop0_iter_removed_before_the_call_out(self, k, command):
        called = count_effects('fail_command') == 1
        before = effect_pre('fail_command', 0) if called else None
        return (command not in at(before, self.current_jobs)) if called else True

    def loop0_iter_timed_out_or_finished_leaves(self, k, command, iter_old):
        r = timed_out_result(iter_old(command))
        return implies(r == ProcessRequestResult.TIMED_OUT or r == ProcessRequestResult.SUCCESS,
                       command not in self.current_jobs)

    def loop0_iter_in_progress_stays(self, k, command, iter_old):
        r = timed_out_result(iter_old(command))
        return implies(r == ProcessRequestResult.IN_PROGRESS, self.current_jobs == iter_old(self.current_jobs))
