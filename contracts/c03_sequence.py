"""C03 / C09 - the ORDERING clauses one level above ApplicationJobs.next: how the two-level plan is keyed when it is built
(Starter.store_application / Stopper.store_application, Starter.start_applications / Stopper.stop_applications) and which
application sequence number Commander.next picks.

Abstract view: Plan(C) = C.planned_jobs (application sequence number -> {application name -> ApplicationJobs});
plan(J) = J.planned_jobs (process sequence number -> commands), as in c03.py.

These are decision facets in a group of their own (no proof of the `commander` group sees them): the call-outs whose frame
is wide (Commander.next: re-entrant, ApplicationStatus.resolve_rules: rules resolution, C18) are abstracted by file-local
assumed contracts that only log an effect entry; the clauses about the plan are stated on the heap *just before* the
call-out (effect_pre), which is what the call-out reads.
"""
from pyvc.spec import *

GROUP = 'commander_seq'   # on its own: no call site of another group uses these facets


# ------------------------------------------------------------------------------------------ file-local abstractions
@contract('application:ApplicationStatus.resolve_rules', props=[])
class ResolveRules:
    """'#' / '@' resolution of the rules of the programs in the start sequence (C18): writes the identifiers of process
    rules only; neither the sequences nor the sequence numbers"""
    assumed = True
    raises = ()
    effect = 'resolve_rules'

    def modifies(self):
        return []


# ------------------------------------------------------------------------------------------ Starter.store_application
def start_keys(application, plan):
    """docstring: 'Copy the start sequence considering programs that are meant to be started automatically, i.e. their
    start_sequence is > 0': the plan of the job has exactly the positive sequence numbers of application.start_sequence"""
    return forall(int, lambda s: (s in plan) == (s > 0 and s in application.start_sequence))


@contract('commander:Starter.store_application', props=['C03'])
class StarterStoreApplication:
    """C03: 'an application only begins once all applications with a lower positive start_sequence are done' /
    'a process is only requested to start once every process of the same application with a lower positive start_sequence
    has finished starting' / 'Processes ... whose start_sequence is 0 are never started automatically' - anchors:
    'two-level plan: application sequence -> process sequence', 'sequence 0 excluded: Starter.store_application (seq > 0)'.
    The job of the application lands under the key application.rules.start_sequence; its plan has exactly the positive
    sequence numbers of application.start_sequence (ApplicationStatus.update_sequences keys it by the processes' own
    rules.start_sequence).  KEY LEVEL ONLY: the per-process content of the plan (one start command per process of that
    number, in order) is not decided, and the breaking mutants tried get no verdict within 9 minutes
    (contracts/wip_c09_stopper_store_application.txt): a proof on the unchanged tree, not yet a detector."""
    raises = ()
    returns = 'Optional[bool]'
    types = {'strategy': 'Optional[StartingStrategies]'}
    effect = 'store_application'

    def post_stored_iff_a_positive_sequence(self, application, result):
        return (result is True) == exists(int, lambda s: s > 0 and s in application.start_sequence)

    def post_keyed_by_application_start_sequence(self, application, result):
        prio = application.rules.start_sequence
        return implies(result is True, prio in self.planned_jobs
                       and application.application_name in self.planned_jobs[prio]
                       and self.planned_jobs[prio][application.application_name].application is application)

    def post_process_level_keys(self, application, result):
        prio = application.rules.start_sequence
        job = self.planned_jobs[prio][application.application_name]
        return implies(result is True, start_keys(application, job.planned_jobs))


# ------------------------------------------------------------------------------------------ Stopper.store_application
@contract('commander:Stopper.store_application', props=[])
class StopperStoreApplicationCalled:
    """file-local abstraction for Stopper.stop_applications below: only the call is logged (the keying contract of
    Stopper.store_application itself did not converge, see contracts/wip_c09_stopper_store_application.txt)"""
    assumed = True
    raises = ()
    effect = 'store_application'


# ------------------------------------------------------------------------------------------ start / stop applications
@contract('application:ApplicationStatus.never_started', props=[])
class NeverStarted:
    """read-only predicate over the process information records"""
    assumed = True
    raises = ()
    returns = 'bool'

    def modifies(self):
        return []

    def post_definition(self, result):
        return result == uf('never_started', bool, self)


@contract('application:ApplicationStatus.has_running_processes', props=[])
class HasRunningProcesses:
    """read-only: 'one of the application processes is running'"""
    assumed = True
    raises = ()
    returns = 'bool'

    def modifies(self):
        return []

    def post_definition(self, result):
        return result == uf('has_running_processes', bool, self)


@contract('commander:Starter.start_applications', props=['C03'])
class StartApplications:
    """C03: 'Processes and applications whose start_sequence is 0 are never started automatically' (anchor: 'sequence 0
    excluded: Starter.start_applications'); docstring: 'auto-started applications (start_sequence > 0) are not restarted
    if they have been stopped intentionally; exception is made for applications in failure'.  Per application of the
    context: it is stored in the plan (one store_application(application), default strategy) iff its
    rules.start_sequence > 0 and it was never started or is in failure; nothing is triggered (Commander.next) while the
    plan is being built.  (KeyError: see CommanderNextPick.)"""
    raises = ('KeyError',)

    def loop0_inv(self, seen):
        return True

    def loop0_iter_planned_iff_positive_sequence(self, application, iter_old):
        a = iter_old(application)
        wanted = a.rules.start_sequence > 0 and (uf('never_started', bool, a) or a.major_failure or a.minor_failure)
        e = effect_at('store_application', 0)
        one = (e[0] is application and e[1] is None) if count_effects('store_application') == 1 else False
        return ite(wanted, one, no_effect('store_application')) and no_effect('commander.next')


@contract('commander:Stopper.stop_applications', props=['C09'])
class StopApplications:
    """C09: 'On supvisors.restart or supvisors.shutdown ... applications are stopped in decreasing application
    stop_sequence under the same rule' - every application with a running process goes through store_application (which
    keys it by its stop_sequence) before anything is triggered: nothing is triggered (Commander.next) while the plan is
    being built; 'stops are only sent to instances where the process is running': an application without running
    process is not planned.  (KeyError: see CommanderNextPick.)"""
    raises = ('KeyError',)

    def loop0_inv(self, seen):
        return True

    def loop0_iter_planned_iff_running(self, application, iter_old):
        a = iter_old(application)
        e = effect_at('store_application', 0)
        one = (e[0] is application) if count_effects('store_application') == 1 else False
        return ite(uf('has_running_processes', bool, a), one, no_effect('store_application')) \
            and no_effect('commander.next')


# ------------------------------------------------------------------------------------------ Commander.next
# File-local abstractions of the call-outs of Commander.next: only their effect entry is known.  No `modifies`: anything
# may change - Starter.after -> stopper.stop_application -> Stopper.next -> Stopper.after -> starter.start_application
# re-enters the Starter; ApplicationJobs.next -> process_job -> fail_command re-enters through the fsm (c03.py).
@contract('commander:ApplicationJobs.in_progress', props=[])
class JobInProgress:
    """read-only: 'there are application jobs planned or in progress' (its trace f-string prints the job objects)"""
    assumed = True
    raises = ()
    returns = 'bool'

    def modifies(self):
        return []

    def post_definition(self, result):
        return result == job_in_progress(self)


@contract('commander:Starter.after', props=[])
class StarterAfter:
    assumed = True
    raises = ()
    effect = 'after'


@contract('commander:Stopper.after', props=[])
class StopperAfter:
    assumed = True
    raises = ()
    effect = 'after'


@contract('commander:ApplicationJobs.before', props=[])
class JobBefore:
    assumed = True
    raises = ()
    effect = 'job_before'
    effect_receiver = True


@contract('commander:ApplicationJobs.next', props=[])
class JobNext:
    assumed = True
    raises = ()
    effect = 'job_next'
    effect_receiver = True


@contract('commander:Commander.publish_state_modes', props=[])
class PublishStateModes:
    """publication of starting_jobs / stopping_jobs (state & modes): does not touch the plan of a Commander"""
    assumed = True
    raises = ()
    effect = 'publish_state_modes'

    def modifies(self):
        return [everything_but('F:planned_jobs:', 'F:current_jobs:', 'D.')]


def job_in_progress(j):
    return len(j.planned_jobs) > 0 or len(j.current_jobs) > 0


def picked_before(c, a, b):
    """a is picked before b: 'pick jobs from the planned sequence using the lowest sequence number' (Starter: C03 'an
    application only begins once all applications with a lower positive start_sequence are done'), '... using the
    greatest sequence number' (Stopper: C09 'applications are stopped in decreasing application stop_sequence')"""
    return a < b if isinstance(c, Starter) else a > b


def all_current_in_progress(c, old):
    """at the entry of the call every application job in flight was still in progress (vacuous when none in flight)"""
    return forall(str, lambda n: implies(n in old(c).current_jobs, job_in_progress(old(old(c).current_jobs[n]))))


def plan_untouched(c, old):
    return (c.current_jobs is old(c).current_jobs and c.planned_jobs is old(c).planned_jobs
            and len(c.current_jobs) == len(old(c).current_jobs) and len(c.planned_jobs) == len(old(c).planned_jobs)
            and forall(str, lambda n: (n in c.current_jobs) == (n in old(c).current_jobs)
                       and implies(n in c.current_jobs, c.current_jobs[n] is old(c).current_jobs[n]
                                   and job_in_progress(c.current_jobs[n])))
            and forall(int, lambda s: (s in c.planned_jobs) == (s in old(c).planned_jobs)
                       and implies(s in c.planned_jobs, c.planned_jobs[s] is old(c).planned_jobs[s])))


@contract('commander:Commander.next', props=['C03', 'C09'])
class CommanderNextPick:
    """C03: 'an application only begins once all applications with a lower positive start_sequence are done' (anchor:
    'pop lowest sequence only when current group is empty: Commander.next'); C09: 'applications are stopped in decreasing
    application stop_sequence under the same rule' (anchor: 'pop highest sequence only when current group is empty').
    Decision facet, per call (the application jobs in flight are Commander.current_jobs):
    * a job is passed to after() and retired exactly when it is no longer in progress (loop0_iter_*);
    * the sequence number picked is the extremum of the planned keys - lowest for the Starter, greatest for the Stopper -
      and it has left the plan when its jobs are triggered (loop1_inv, established at the pick);
    * every application job of the picked group gets one before() and one next(), in this call (loop1_iter_*).
    KeyError is allowed to escape: `del self.current_jobs[application_name]` comes after the re-entrant after() call-out,
    which may already have retired the job - a genuine defect reproduced natively (findings/C09_restart_keyerror_demo.py,
    recorded in the not_decided list of C09).  With raises = () the obligation safe:KeyError@Commander.next is not
    decided within 2 minutes under these abstractions, so it is not registered as an obligation / known finding here."""
    variants = ['Starter', 'Stopper']
    raises = ('KeyError',)
    recursive = True
    effect = 'commander.next'
    loop0_effects = ('after',)
    loop1_effects = ('job_before', 'job_next')

    def loop0_inv(self, k):
        return k >= 0

    def loop0_iter_retired_iff_over(self, k, application_job, application_name, iter_old):
        over = not job_in_progress(iter_old(application_job))
        e = effect_at('after', 0)
        one = (e[0] is application_job) if count_effects('after') == 1 else False
        return ite(over, one and application_name not in self.current_jobs,
                   no_effect() and self.current_jobs is iter_old(self.current_jobs)
                   and (application_name in self.current_jobs) == (application_name in iter_old(self.current_jobs)))

    def loop1_inv(self, k, sequence_number, loop_old):
        return (k >= 0
                and sequence_number not in loop_old.self.planned_jobs
                and forall(int, lambda s: implies(s in loop_old.self.planned_jobs, picked_before(self, sequence_number, s))))

    def loop1_iter_before_and_next(self, k, application_job, iter_old):
        ok = (effect_at('job_before', 0)[0] is application_job and effect_at('job_next', 0)[0] is application_job) \
            if count_effects('job_before') == 1 and count_effects('job_next') == 1 else False
        return ok


@contract('commander:Commander.next', props=['C03', 'C09'])
class CommanderNextBlocked:
    """Second facet of Commander.next (same clauses of C03 / C09 as CommanderNextPick, the part 'only when current group
    is empty'), in terms of the entry state: while an application job in flight is still in progress, no application
    job is retired, nothing is picked and the plan is untouched (the effect side is CommanderNextGuard); when nothing was in
    flight at the entry of the call, the group triggered is Plan[extremum of the planned keys]."""
    variants = ['Starter', 'Stopper']
    raises = ('KeyError',)
    recursive = True
    effect = 'commander.next'
    loop0_effects = ('after',)
    loop1_effects = ('job_before', 'job_next')

    def loop0_inv(self, k, old):
        return k >= 0 and implies(all_current_in_progress(self, old), plan_untouched(self, old))

    def loop1_inv(self, k, sequence_number, loop_old, old):
        nothing_in_flight = len(old.self.current_jobs) == 0
        return k >= 0 and implies(nothing_in_flight, sequence_number in old.self.planned_jobs
                                  and loop_old.self.current_jobs is old.self.planned_jobs[sequence_number]
                                  and forall(int, lambda s: implies(s in old.self.planned_jobs, s == sequence_number
                                                                    or picked_before(self, sequence_number, s))))

    def post_blocked_while_in_progress(self, old):
        blocked = len(old.self.current_jobs) > 0 and all_current_in_progress(self, old)
        return implies(blocked, plan_untouched(self, old))


def flight_untouched(c, old):
    """the part of plan_untouched the guard `not self.current_jobs` reads"""
    return (c.current_jobs is old(c).current_jobs and len(c.current_jobs) == len(old(c).current_jobs)
            and forall(str, lambda n: (n in c.current_jobs) == (n in old(c).current_jobs)
                       and implies(n in c.current_jobs, c.current_jobs[n] is old(c).current_jobs[n]
                                   and job_in_progress(c.current_jobs[n]))))


@contract('commander:Commander.next', props=['C03', 'C09'])
class CommanderNextGuard:
    """Third facet (decision facet of CommanderNextBlocked under the smallest invariant that carries the guard): 'pop
    lowest / highest sequence only when current group is empty' - while every application job in flight is still in
    progress, no before() / next() is emitted and the call does not recurse."""
    variants = ['Starter', 'Stopper']
    raises = ('KeyError',)
    recursive = True
    effect = 'commander.next'
    loop0_effects = ('after',)
    loop1_effects = ('job_before', 'job_next')

    def loop0_inv(self, k, old):
        return k >= 0 and implies(all_current_in_progress(self, old), flight_untouched(self, old))

    def loop1_inv(self, k):
        return k >= 0

    def post_effect_blocked_while_in_progress(self, old):
        blocked = len(old.self.current_jobs) > 0 and all_current_in_progress(self, old)
        return implies(blocked, no_effect('job_before', 'job_next', 'commander.next'))


# ------------------------------------------------------------------------------------------ ApplicationStatus.update_sequences
@contract('application:ApplicationStatus.update_sequences', props=['C03', 'C09'])
class UpdateSequences:
    """C03: 'a process is only requested to start once every process of the same application with a lower positive
    start_sequence ...' / C09: 'processes are asked to stop in decreasing stop_sequence order ... (stop_sequence at both
    levels ..., unmanaged applications)': the sequences Starter / Stopper.store_application copy are keyed by the
    processes' OWN rules - per process of the application: it sits in start_sequence[process.rules.start_sequence] (managed
    applications: 'consider only managed applications for start sequence') and in
    stop_sequence[process.rules.stop_sequence] ('stop sequence is applicable to all applications').  Refutability: the
    mutants of the start loop are refuted in seconds; those of the stop loop (second loop, after the havoc of the first) get
    no verdict within 2 minutes."""
    raises = ()

    def pre_two_maps(self):
        """__init__ creates two dict objects"""
        return self.start_sequence is not self.stop_sequence

    def loop0_inv(self, seen):
        return True

    def loop0_iter_keyed_by_own_start_sequence(self, process):
        s = process.rules.start_sequence
        return s in self.start_sequence and process in self.start_sequence[s]

    def loop1_inv(self, seen):
        return True

    def loop1_iter_keyed_by_own_stop_sequence(self, process):
        s = process.rules.stop_sequence
        return s in self.stop_sequence and process in self.stop_sequence[s]
