"""C03 / C09 - the ORDERING clauses one level above ApplicationJobs.next: how the two-level plan is keyed when it is built
(Starter.store_application / Stopper.store_application, Starter.start_applications / Stopper.stop_applications) and which
application sequence number Commander.next picks.

Abstract view: Plan(C) = C.planned_jobs (application sequence number -> {application name -> ApplicationJobs});
plan(J) = J.planned_jobs (process sequence number -> commands), as in c03.py.

These are decision facets in a group of their own (no proof of the `commander` group sees them): the call-outs whose frame
is wide (Commander.next: re-entrant, ApplicationStatus.resolve_rules: rules resolution, C18) are abstracted by file-local
assumed contracts that only log an effect entry; the clauses about the plan are stated on the heap *just before* the
call-out (effect_pre), which is what the call-out reads.
"""
from pyvc.spec import *

GROUP = 'commander_seq'   # on its own: no call site of another group uses these facets


# ------------------------------------------------------------------------------------------ file-local abstractions
@contract('application:ApplicationStatus.resolve_rules', props=[])
class ResolveRules:
    """'#' / '@' resolution of the rules of the programs in the start sequence (C18): writes the identifiers of process
    rules only; neither the sequences nor the sequence numbers"""
    assumed = True
    raises = ()
    effect = 'resolve_rules'

    def modifies(self):
        return []


# ------------------------------------------------------------------------------------------ Starter.store_application
def start_keys(application, plan):
    """docstring: 'Copy the start sequence considering programs that are meant to be started automatically, i.e. their
    start_sequence is > 0': the plan of the job has exactly the positive sequence numbers of application.start_sequence"""
    return forall(int, lambda s: (s in plan) == (s > 0 and s in application.start_sequence))


@contract('commander:Starter.store_application', props=['C03'])
class StarterStoreApplication:
    """C03: 'an application only begins once all applications with a lower positive start_sequence are done' /
    'a process is only requested to start once every process of the same application with a lower positive start_sequence
    has finished starting' / 'Processes ... whose start_sequence is 0 are never started automatically' - anchors:
    'two-level plan: application sequence -> process sequence', 'sequence 0 excluded: Starter.store_application (seq > 0)'.
    The job of the application lands under the key application.rules.start_sequence; its plan has exactly the positive
    sequence numbers of application.start_sequence (ApplicationStatus.update_sequences keys it by the processes' own
    rules.start_sequence) with one start command per process of that number, in order."""
    raises = ()
    returns = 'Optional[bool]'
    types = {'strategy': 'Optional[StartingStrategies]'}

    def post_stored_iff_a_positive_sequence(self, application, result):
        return (result is True) == exists(int, lambda s: s > 0 and s in application.start_sequence)

    def post_keyed_by_application_start_sequence(self, application, result):
        prio = application.rules.start_sequence
        return implies(result is True, prio in self.planned_jobs
                       and application.application_name in self.planned_jobs[prio]
                       and self.planned_jobs[prio][application.application_name].application is application)

    def post_process_level_keys(self, application, result):
        prio = application.rules.start_sequence
        job = self.planned_jobs[prio][application.application_name]
        return implies(result is True, start_keys(application, job.planned_jobs))


# ------------------------------------------------------------------------------------------ Stopper.store_application
@contract('commander:ApplicationStopJobs.__init__', props=[])
class StopJobsInit:
    """constructor: stores its arguments, empty in-flight list (the instance attribute pickup_logic = max it sets is
    resolved by the engine from the source when ApplicationJobs.next is verified, contracts/c03.py)"""
    assumed = True
    raises = ()

    def modifies(self):
        return [field(self, 'supvisors'), field(self, 'application'), field(self, 'application_name'),
                field(self, 'planned_jobs'), field(self, 'current_jobs')]

    def post_fields(self, application, jobs, supvisors):
        return (self.application is application and self.planned_jobs is jobs and self.supvisors is supvisors
                and self.application_name == application.application_name
                and was_fresh(self.current_jobs) and len(self.current_jobs) == 0)


@contract('commander:Stopper.store_application', props=['C09'])
class StopperStoreApplication:
    """C09: 'applications are stopped in decreasing application stop_sequence' / 'processes are asked to stop in
    decreasing stop_sequence order' - anchor 'Stopper plan: application stop_sequence -> process stop_sequence ->
    (process, instance) commands'.  When something is planned, the job of the application lands under the key
    application.rules.stop_sequence and the sequence numbers of its plan are sequence numbers of
    application.stop_sequence (ApplicationStatus.update_sequences keys it by the processes' own rules.stop_sequence;
    'stop sequence applies to unmanaged applications too')."""
    raises = ()
    types = {'stop_sequence': 'Dict[int, List[ProcessCommand]]'}

    def pre_running_copies_are_known(self, application):
        """shape validity (C11 I11 / C16): a process runs on instances of the context that reported a full Supervisor
        information record for it - ProcessStopCommand.__init__ reads instances[identifier] and
        info_map[identifier]['stopwaitsecs']"""
        return forall(int, lambda s: implies(s in application.stop_sequence, forall(
            application.stop_sequence[s], lambda p: forall(p.running_identifiers, lambda i: (
                i in self.supvisors.context.instances and i in p.info_map and 'stopwaitsecs' in p.info_map[i])))))

    def loop0_inv(self, seen, stop_sequence, application):
        return forall(int, lambda s: implies(s in stop_sequence, s in application.stop_sequence))

    def loop0_modifies(self, stop_sequence):
        return [contents(stop_sequence)]

    def post_nothing_else_planned(self, application, old):
        """only the entry of application.rules.stop_sequence may appear / change"""
        prio = application.rules.stop_sequence
        return forall(int, lambda s: implies(s != prio, (s in self.planned_jobs) == (s in old.self.planned_jobs)
                                             and implies(s in self.planned_jobs,
                                                         self.planned_jobs[s] is old.self.planned_jobs[s])))

    def post_keyed_by_application_stop_sequence(self, application, old):
        prio = application.rules.stop_sequence
        name = application.application_name
        stored = prio in self.planned_jobs and name in self.planned_jobs[prio] \
            and was_fresh(self.planned_jobs[prio][name])
        return implies(stored, self.planned_jobs[prio][name].application is application
                       and isinstance(self.planned_jobs[prio][name], ApplicationStopJobs))

    def post_process_level_keys(self, application):
        prio = application.rules.stop_sequence
        name = application.application_name
        stored = prio in self.planned_jobs and name in self.planned_jobs[prio] \
            and was_fresh(self.planned_jobs[prio][name])
        plan = self.planned_jobs[prio][name].planned_jobs
        return implies(stored, forall(int, lambda s: implies(s in plan, s in application.stop_sequence)))


# ------------------------------------------------------------------------------------------ Commander.next
# File-local abstractions of the call-outs of Commander.next: only their effect entry is known.  No `modifies`: anything
# may change - Starter.after -> stopper.stop_application -> Stopper.next -> Stopper.after -> starter.start_application
# re-enters the Starter; ApplicationJobs.next -> process_job -> fail_command re-enters through the fsm (c03.py).
@contract('commander:ApplicationJobs.in_progress', props=[])
class JobInProgress:
    """read-only: 'there are application jobs planned or in progress' (its trace f-string prints the job objects)"""
    assumed = True
    raises = ()
    returns = 'bool'

    def modifies(self):
        return []

    def post_definition(self, result):
        return result == job_in_progress(self)


@contract('commander:Starter.after', props=[])
class StarterAfter:
    assumed = True
    raises = ()
    effect = 'after'


@contract('commander:Stopper.after', props=[])
class StopperAfter:
    assumed = True
    raises = ()
    effect = 'after'


@contract('commander:ApplicationJobs.before', props=[])
class JobBefore:
    assumed = True
    raises = ()
    effect = 'job_before'
    effect_receiver = True


@contract('commander:ApplicationJobs.next', props=[])
class JobNext:
    assumed = True
    raises = ()
    effect = 'job_next'
    effect_receiver = True


@contract('commander:Commander.publish_state_modes', props=[])
class PublishStateModes:
    """publication of starting_jobs / stopping_jobs (state & modes): does not touch the plan of a Commander"""
    assumed = True
    raises = ()
    effect = 'publish_state_modes'

    def modifies(self):
        return [everything_but('F:planned_jobs:', 'F:current_jobs:', 'D.')]


def job_in_progress(j):
    return len(j.planned_jobs) > 0 or len(j.current_jobs) > 0


def picked_before(c, a, b):
    """a is picked before b: 'pick jobs from the planned sequence using the lowest sequence number' (Starter: C03 'an
    application only begins once all applications with a lower positive start_sequence are done'), '... using the
    greatest sequence number' (Stopper: C09 'applications are stopped in decreasing application stop_sequence')"""
    return a < b if isinstance(c, Starter) else a > b


def all_current_in_progress(c, old):
    """at the entry of the call every application job in flight was still in progress (vacuous when none in flight)"""
    return forall(str, lambda n: implies(n in old(c).current_jobs, job_in_progress(old(old(c).current_jobs[n]))))


def plan_untouched(c, old):
    return (c.current_jobs is old(c).current_jobs and c.planned_jobs is old(c).planned_jobs
            and len(c.current_jobs) == len(old(c).current_jobs) and len(c.planned_jobs) == len(old(c).planned_jobs)
            and forall(str, lambda n: (n in c.current_jobs) == (n in old(c).current_jobs)
                       and implies(n in c.current_jobs, c.current_jobs[n] is old(c).current_jobs[n]
                                   and job_in_progress(c.current_jobs[n])))
            and forall(int, lambda s: (s in c.planned_jobs) == (s in old(c).planned_jobs)
                       and implies(s in c.planned_jobs, c.planned_jobs[s] is old(c).planned_jobs[s])))


@contract('commander:Commander.next', props=['C03', 'C09'])
class CommanderNextPick:
    """C03: 'an application only begins once all applications with a lower positive start_sequence are done' (anchor:
    'pop lowest sequence only when current group is empty: Commander.next'); C09: 'applications are stopped in decreasing
    application stop_sequence under the same rule' (anchor: 'pop highest sequence only when current group is empty').
    Decision facet, per call (the application jobs in flight are Commander.current_jobs):
    * while an application job in flight is still in progress, no application job is retired, nothing is picked, no
      before() / next() is emitted and the plan is untouched (post_blocked_*);
    * a job is passed to after() and retired exactly when it is no longer in progress (loop0_iter_*);
    * the sequence number picked is the extremum of the planned keys - lowest for the Starter, greatest for the Stopper -
      and it has left the plan when its jobs are triggered (loop1_inv, established at the pick); when nothing was in
      flight at the entry of the call, in terms of the entry state: the group triggered is Plan[extremum of the keys];
    * every application job of the picked group gets one before() and one next(), in this call (loop1_iter_*).
    KeyError is allowed to escape here: `del self.current_jobs[application_name]` after the re-entrant after() call-out
    is not protected under these abstractions (nothing is assumed of the call-out); not the subject of this facet."""
    variants = ['Starter', 'Stopper']
    raises = ('KeyError',)
    recursive = True
    effect = 'commander.next'
    loop0_effects = ('after',)
    loop1_effects = ('job_before', 'job_next')

    def loop0_inv(self, k, old):
        return k >= 0 and implies(all_current_in_progress(self, old), plan_untouched(self, old))

    def loop0_iter_retired_iff_over(self, k, application_job, application_name, iter_old):
        over = not job_in_progress(iter_old(application_job))
        e = effect_at('after', 0)
        one = (e[0] is application_job) if count_effects('after') == 1 else False
        return ite(over, one and application_name not in self.current_jobs,
                   no_effect() and self.current_jobs is iter_old(self.current_jobs)
                   and (application_name in self.current_jobs) == (application_name in iter_old(self.current_jobs)))

    def loop1_inv(self, k, sequence_number, loop_old, old):
        nothing_in_flight = len(old.self.current_jobs) == 0
        return (k >= 0
                and sequence_number not in loop_old.self.planned_jobs
                and forall(int, lambda s: implies(s in loop_old.self.planned_jobs, picked_before(self, sequence_number, s)))
                and implies(nothing_in_flight, sequence_number in old.self.planned_jobs
                            and loop_old.self.current_jobs is old.self.planned_jobs[sequence_number]
                            and forall(int, lambda s: implies(s in old.self.planned_jobs, s == sequence_number
                                                              or picked_before(self, sequence_number, s)))))

    def loop1_iter_before_and_next(self, k, application_job, iter_old):
        ok = (effect_at('job_before', 0)[0] is application_job and effect_at('job_next', 0)[0] is application_job) \
            if count_effects('job_before') == 1 and count_effects('job_next') == 1 else False
        return ok

    def post_blocked_while_in_progress(self, old):
        blocked = len(old.self.current_jobs) > 0 and all_current_in_progress(self, old)
        return implies(blocked, plan_untouched(self, old))

    def post_effect_blocked_while_in_progress(self, old):
        blocked = len(old.self.current_jobs) > 0 and all_current_in_progress(self, old)
        return implies(blocked, no_effect('job_before', 'job_next', 'commander.next'))
