"""C20 - decision facet of HostStatisticsInstance._push_timed_stats for the clause 'an entity seen for the first time
starts with ONE point in its time series and in each value series' (the full contract is contracts/c20_timed.py; under its
quantified invariants a broken first-sight assignment is not refuted within the time limit).  Same preconditions and loop
frames; the invariants keep only what the last loop and the exception freedom of `del ref_stats[intf]` need."""
from pyvc.spec import *
from contracts.c20_timed import ent_aligned, ent_labelled, is_history_list, slot

GROUP = 'statsmodel_timed_new'


@contract('statscompiler:HostStatisticsInstance._push_timed_stats', props=['C20'])
class PushTimedStatsFirstSight:
    raises = ()
    use_contracts = ['statscompiler:trunc_depth']
    types = {'destroy_list': 'List[str]'}

    def pre_depth(self):
        return self.depth >= 1

    def pre_separated(self, ref_stats, io_stats):
        return (ref_stats is not io_stats
                and forall(str, lambda a: implies(a in ref_stats, ent_labelled(ref_stats, a)))
                and forall(str, lambda c: implies(c in io_stats, is_alloc(io_stats[c]) and slot(io_stats[c]) == -2)))

    def post_first_sight_one_point(self, ref_stats, old):
        return forall(str, lambda a: implies(
            a in old.io_stats and a not in old.ref_stats,
            a in ref_stats and len(ref_stats[a][0]) == 1 and len(ref_stats[a][1]) == len(old.io_stats[a])
            and forall(int, lambda i: implies(0 <= i and i < len(ref_stats[a][1]), len(ref_stats[a][1][i]) == 1))))

    def loop0_modifies(self, ref_stats, io_stats, destroy_list):
        return [contents(io_stats), contents(destroy_list),
                contents_where(lambda l: is_history_list(ref_stats, l), 'list')]

    def loop0_inv(self, seen, ref_stats, io_stats, destroy_list, old):
        return (forall(str, lambda a: implies(a in destroy_list, a in seen)) and duplicate_free(destroy_list)
                and forall(str, lambda a: implies(a in old.io_stats and a not in old.ref_stats,
                                                  a in io_stats and io_stats[a] is old.io_stats[a]))
                and forall(str, lambda a: implies(a in io_stats, a in old.io_stats and a not in seen)))

    def loop1_modifies(self, ref_bytes):
        return [contents_where(lambda l: 0 <= slot(l) and slot(l) < len(ref_bytes) and l is ref_bytes[slot(l)], 'list')]

    def loop1_inv(self, k):
        return True

    def loop2_modifies(self, ref_stats):
        return [contents(ref_stats)]

    def loop2_inv(self, k, ref_stats, destroy_list, loop_old):
        return (duplicate_free(destroy_list)
                and forall(str, lambda a: (a in ref_stats) == (a in loop_old.ref_stats and not exists(
                    int, lambda j: 0 <= j and j < k and destroy_list[j] == a))))

    def loop3_modifies(self, ref_stats):
        return [contents(ref_stats)]

    def loop3_inv(self, seen, ref_stats, io_stats):
        return forall(str, lambda a: implies(
            a in seen,
            a in ref_stats and is_alloc(ref_stats[a][0]) and is_alloc(ref_stats[a][1]) and len(ref_stats[a][0]) == 1
            and len(ref_stats[a][1]) == len(io_stats[a])
            and forall(int, lambda i: implies(0 <= i and i < len(ref_stats[a][1]),
                                              is_alloc(ref_stats[a][1][i]) and len(ref_stats[a][1][i]) == 1))))
