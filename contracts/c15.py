"""C15 - Application state and operational status follow their definition.

Abstract view: disp(p) = displayed state of process p (forced state if any, else synthetic state).
"""
import ast
from pyvc.spec import *

GROUP = 'appstatus'   # contracts of one group use each other's contracts at call sites (pyvc/hooks.py contract_for_call)


def disp(p):
    """displayed state of a process (C11 proves the getter equal to this)"""
    return ite(p.forced_state is None, p._state, p.forced_state)


def some_process(app, states):
    """some process of the application is displayed in one of `states`"""
    return exists(str, lambda n: n in app.processes and disp(app.processes[n]) in states)


def some_process_among(app, names, states):
    return exists(str, lambda n: n in names and disp(app.processes[n]) in states)


# ------------------------------------------------------------------------------------------ application state
@contract('application:ApplicationStatus.update_state', props=['C15'])
class UpdateState:
    """statement: 'An application is reported STOPPING if any of its processes is STOPPING, otherwise STARTING if any
    is STARTING or BACKOFF, otherwise RUNNING if any is RUNNING, otherwise STOPPED.'"""
    raises = ()

    def modifies(self):
        return []

    def post_definition(self, result):
        return result == ite(some_process(self, (ProcessStates.STOPPING,)), ApplicationStates.STOPPING,
                             ite(some_process(self, (ProcessStates.STARTING, ProcessStates.BACKOFF)),
                                 ApplicationStates.STARTING,
                                 ite(some_process(self, (ProcessStates.RUNNING,)), ApplicationStates.RUNNING,
                                     ApplicationStates.STOPPED)))

    def loop0_inv(self, seen, starting, running, stopping):
        """the three flags are the exists-summaries of the processes seen so far"""
        return (stopping == some_process_among(self, seen, (ProcessStates.STOPPING,))
                and starting == some_process_among(self, seen, (ProcessStates.STARTING, ProcessStates.BACKOFF))
                and running == some_process_among(self, seen, (ProcessStates.RUNNING,)))

    def loop0_modifies(self):
        return []


# ------------------------------------------------------------------------------------------ status without formula
def failed(p):
    """statement: '... is FATAL, UNKNOWN or unexpectedly EXITED'"""
    return (disp(p) in (ProcessStates.FATAL, ProcessStates.UNKNOWN)
            or (disp(p) == ProcessStates.EXITED and not p.expected_exit))


def required_failure(app, names):
    """statement: 'a required process is FATAL, UNKNOWN or unexpectedly EXITED'"""
    return exists(str, lambda n: n in names and app.processes[n].rules.required and failed(app.processes[n]))


def required_stopped(app, names):
    """statement: '... or STOPPED [while the application is not]'"""
    return exists(str, lambda n: n in names and app.processes[n].rules.required
                  and disp(app.processes[n]) == ProcessStates.STOPPED)


def optional_failure(app, names, sequenced):
    """statement: 'non-required processes of a managed application are so' (the start sequence only exists for managed
    applications; membership is by process name, as the code keys the start sequence by name)"""
    return exists(str, lambda n: n in names and not app.processes[n].rules.required and failed(app.processes[n])
                  and app.processes[n].process_name in sequenced)


@contract('application:ApplicationStatus.update_status_required', props=['C15'])
class UpdateStatusRequired:
    """statement: 'Without a formula, a major failure is reported when a required process is FATAL, UNKNOWN or
    unexpectedly EXITED, or STOPPED while the application is not, and a minor failure when only non-required processes
    of a managed application are so'.  Stated for any entry value of the two flags (the function only ever raises
    them); update() resets both before the call, which gives the statement as written (post_*_after_reset)."""
    raises = ()

    def modifies(self):
        return [field(self, 'major_failure'), field(self, 'minor_failure')]

    def post_major(self, old):
        return self.major_failure == (old.self.major_failure or required_failure(self, self.processes)
                                      or (self._state != ApplicationStates.STOPPED
                                          and required_stopped(self, self.processes)))

    def post_minor(self, sequenced_processes, old):
        return self.minor_failure == (not self.major_failure
                                      and (old.self.minor_failure
                                           or optional_failure(self, self.processes, sequenced_processes)))

    def post_major_after_reset(self, old):
        return implies(not old.self.major_failure,
                       self.major_failure == (required_failure(self, self.processes)
                                              or (self._state != ApplicationStates.STOPPED
                                                  and required_stopped(self, self.processes))))

    def post_minor_after_reset(self, sequenced_processes, old):
        return implies(not old.self.major_failure and not old.self.minor_failure,
                       self.minor_failure == (not self.major_failure
                                              and optional_failure(self, self.processes, sequenced_processes)))

    def loop0_inv(self, seen, loop_old, possible_major_failure, sequenced_processes):
        """flags = entry value or the exists-summary of the processes seen so far"""
        return (self.major_failure == (loop_old.self.major_failure or required_failure(self, seen))
                and self.minor_failure == (loop_old.self.minor_failure
                                           or optional_failure(self, seen, sequenced_processes))
                and possible_major_failure == required_stopped(self, seen))

    def loop0_modifies(self):
        return [field(self, 'major_failure'), field(self, 'minor_failure')]


# ------------------------------------------------------------------------------------------ formula: loading
def loaded(rules):
    """what the status_formula setter establishes and nothing else writes: no tree, or a module of one statement"""
    return rules._status_tree is None or len(rules._status_tree.body) == 1


def is_expression(rules):
    return type(rules._status_tree.body[0]) is ast.Expr


def root(rules):
    """root expression of a formula that is an expression statement"""
    return narrow(rules._status_tree.body[0], ast.Expr).value


@contract('application:ApplicationRules.status_formula[setter]', props=['C15'])
class StatusFormulaSetter:
    """statement: 'for all formula strings (well-formed, ill-formed or hostile) ... any other construct ... yields a
    major failure rather than an error'; DESIGN C15.4: any string either raises ApplicationStatusParseError (the
    caller, Parser.load_status, catches exactly that and keeps no formula) or yields a single EXPRESSION tree."""
    raises = ('ApplicationStatusParseError',)

    def modifies(self):
        return [field(self, '_status_formula'), field(self, '_status_tree')]

    def post_stored(self, formula):
        return self._status_tree is not None and len(self._status_tree.body) == 1 and self._status_formula == formula

    def post_single_expression(self):
        return is_expression(self)

    def exc_ApplicationStatusParseError_nothing_stored(self, old):
        return self._status_tree == old.self._status_tree and self._status_formula == old.self._status_formula


@contract('application:ApplicationRules.status_tree[getter]', props=['C15'])
class StatusTree:
    """root expression of the loaded formula, None without formula; never an error (statement: '... rather than an
    error'): evaluated by every ApplicationStatus.update()"""
    raises = ()
    returns = 'Optional[AstExpr]'

    def modifies(self):
        return []

    def pre_loaded(self):
        """object invariant of ApplicationRules established by the status_formula setter (its only writer, proved by
        post_single_expression): a stored tree is a single expression"""
        return loaded(self) and implies(self._status_tree is not None, is_expression(self))

    def post_none_without_formula(self, result):
        return implies(self._status_tree is None, result is None)

    def post_root_expression(self, result):
        return implies(self._status_tree is not None and is_expression(self), result is root(self))


# ------------------------------------------------------------------------------------------ formula: reference value
# Reference evaluator of the statement ('the formula evaluated over process names and patterns with and/or/not/any/all
# ... any other construct, or a pattern matching nothing, yields a major failure'), as two ghost functions of the
# application and the node, defined by structural recursion in reference_semantics() below:
#   fkind = K_BOOL: the node denotes a boolean, fval is its value;  K_LIST: it denotes the list of the statuses of the
#   >= 2 processes matched by a pattern leaf (only usable as argument of any/all);  K_ERR: anything else.
K_BOOL = 0
K_LIST = 1
K_ERR = 2


def fkind(app, n):
    return ghost_int('c15_kind', app, n)


def fval(app, n):
    return ghost_bool('c15_value', app, n)


def fall(app, n):
    """K_LIST nodes: every matched process is up"""
    return ghost_bool('c15_all', app, n)


def fany(app, n):
    """K_LIST nodes: some matched process is up"""
    return ghost_bool('c15_any', app, n)


@contract('application:ApplicationStatus.update_status_formula', props=['C15'])
class UpdateStatusFormula:
    """statement: 'with an operational_status formula the major failure is the negation of the formula evaluated over
    process names and patterns with and/or/not/any/all ... any other construct, or a pattern matching nothing, yields a
    major failure rather than an error or a side effect'"""
    raises = ()

    def modifies(self):
        return [field(self, 'major_failure'), field(self, 'minor_failure')]

    def pre_formula_loaded(self):
        """call site (update): only called when rules.status_tree is truthy"""
        return (self.rules is not None and self.rules._status_tree is not None and loaded(self.rules)
                and is_expression(self.rules))     # invariant established by the status_formula setter

    def post_major(self):
        return implies(is_expression(self.rules),
                       self.major_failure == (fkind(self, root(self.rules)) != K_BOOL
                                              or not fval(self, root(self.rules))))

    def post_minor(self, sequenced_processes, old):
        """code-derived (the statement defines the minor failure without formula only): a start-sequence process in
        failure is a minor failure unless there is a major one; the flag is never lowered here (update() resets it)"""
        return self.minor_failure == (old.self.minor_failure or (
            not self.major_failure and exists(str, lambda n: n in sequenced_processes
                                              and failed(sequenced_processes[n]))))

    def loop0_inv(self, seen, loop_old, sequenced_processes):
        return (self.minor_failure == (loop_old.self.minor_failure
                                       or exists(str, lambda n: n in seen and failed(sequenced_processes[n])))
                and self.major_failure == loop_old.self.major_failure)

    def loop0_modifies(self):
        return [field(self, 'minor_failure')]


@contract('application:ApplicationStatus._get_process_status', props=['C15'])
class GetProcessStatus:
    """value of a process-name leaf: the process is up (running-like, or exited as expected) - same reading as the
    statement's failure definition: down = FATAL, UNKNOWN, STOPPED, STOPPING or unexpectedly EXITED"""
    raises = ()

    def modifies(self):
        return []

    def pre_known(self, process_name):
        """call sites (evaluate): a key of self.processes, or a name returned by _get_matches"""
        return process_name in self.processes

    def post_up(self, process_name, result):
        p = self.processes[process_name]
        return result == (disp(p) in (ProcessStates.STARTING, ProcessStates.BACKOFF, ProcessStates.RUNNING)
                          or (disp(p) == ProcessStates.EXITED and p.expected_exit))


@contract('application:ApplicationStatus.evaluate', props=['C15'])
class Evaluate:
    """statement: 'the formula evaluated over process names and patterns with and/or/not/any/all. Evaluating a formula
    never executes anything else: any other construct, or a pattern matching nothing, yields a major failure rather
    than an error or a side effect' - returns the reference value or raises ApplicationStatusParseError exactly when
    the reference evaluator fails; no other exception for any node of any ast class; no write."""
    raises = ('ApplicationStatusParseError',)
    returns = ('bool', 'List[bool]')
    types = {'node': 'AstNode'}
    assumed = True      # NOT proved: backed by the bounded enumeration of pyvc/structural_c15.py (see not_decided)

    def modifies(self):
        return []

    def post_boolean(self, node, result):
        return implies(type(result) is bool, fkind(self, node) == K_BOOL and result == fval(self, node))

    def post_list(self, node, result):
        return ((fkind(self, node) == K_LIST and all(result) == fall(self, node) and any(result) == fany(self, node))
                if type(result) is not bool else True)

    def exc_ApplicationStatusParseError_iff_reference_fails(self, node):
        return fkind(self, node) == K_ERR


# ------------------------------------------------------------------------------------------ top level: update()
def in_start_sequence(app, p):
    return exists(int, int, lambda s, i: s in app.start_sequence and 0 <= i and i < len(app.start_sequence[s])
                  and app.start_sequence[s][i] is p)


def structure(app):
    """structural validity of an ApplicationStatus (add_process keys the map by process_name; update_sequences fills
    the start sequence with members of the map): assumed here, see not_decided"""
    return (forall(str, lambda n: implies(n in app.processes, app.processes[n].process_name == n))
            and forall(int, int, lambda s, i: implies(
                s in app.start_sequence and 0 <= i and i < len(app.start_sequence[s]),
                app.start_sequence[s][i].process_name in app.processes
                and app.processes[app.start_sequence[s][i].process_name] is app.start_sequence[s][i])))


@contract('application:ApplicationStatus.update', props=['C15'])
class Update:
    """the whole statement, on the observable fields (state / major_failure / minor_failure of get_application_info)"""
    raises = ()

    def modifies(self):
        return [field(self, '_state'), field(self, 'major_failure'), field(self, 'minor_failure')]

    def pre_rules(self):
        return (self.rules is not None and loaded(self.rules)
                and implies(self.rules._status_tree is not None, is_expression(self.rules)))

    def pre_structure(self):
        return structure(self)

    def post_state(self):
        """'An application is reported STOPPING if any of its processes is STOPPING, otherwise STARTING if any is
        STARTING or BACKOFF, otherwise RUNNING if any is RUNNING, otherwise STOPPED.'"""
        return self._state == ite(some_process(self, (ProcessStates.STOPPING,)), ApplicationStates.STOPPING,
                                  ite(some_process(self, (ProcessStates.STARTING, ProcessStates.BACKOFF)),
                                      ApplicationStates.STARTING,
                                      ite(some_process(self, (ProcessStates.RUNNING,)), ApplicationStates.RUNNING,
                                          ApplicationStates.STOPPED)))

    def post_major_without_formula(self):
        """'Without a formula, a major failure is reported when a required process is FATAL, UNKNOWN or unexpectedly
        EXITED, or STOPPED while the application is not'"""
        return implies(self.rules._status_tree is None,
                       self.major_failure == exists(str, lambda n: n in self.processes
                                                    and self.processes[n].rules.required
                                                    and (failed(self.processes[n])
                                                         or (disp(self.processes[n]) == ProcessStates.STOPPED
                                                             and self._state != ApplicationStates.STOPPED))))

    def post_minor_without_formula(self):
        """'and a minor failure when only non-required processes of a managed application are so' (DESIGN: not major,
        and some non-required process of the start sequence is failed)"""
        return implies(self.rules._status_tree is None,
                       self.minor_failure == (not self.major_failure and exists(
                           str, lambda n: n in self.processes and not self.processes[n].rules.required
                           and failed(self.processes[n]) and in_start_sequence(self, self.processes[n]))))

    def post_major_with_formula(self):
        """'with an operational_status formula the major failure is the negation of the formula evaluated ...; any
        other construct, or a pattern matching nothing, yields a major failure'"""
        return implies(self.rules._status_tree is not None and is_expression(self.rules),
                       self.major_failure == (fkind(self, root(self.rules)) != K_BOOL
                                              or not fval(self, root(self.rules))))

    def post_never_both(self):
        return not (self.major_failure and self.minor_failure)
