"""C15 - Application state and operational status follow their definition.

Abstract view: disp(p) = displayed state of process p (forced state if any, else synthetic state).
"""
from pyvc.spec import *


def disp(p):
    """displayed state of a process (C11 proves the getter equal to this)"""
    return ite(p.forced_state is None, p._state, p.forced_state)


def some_process(app, states):
    """some process of the application is displayed in one of `states`"""
    return exists(str, lambda n: n in app.processes and disp(app.processes[n]) in states)


def some_process_among(app, names, states):
    return exists(str, lambda n: n in names and disp(app.processes[n]) in states)


# ------------------------------------------------------------------------------------------ application state
@contract('application:ApplicationStatus.update_state', props=['C15'])
class UpdateState:
    """statement: 'An application is reported STOPPING if any of its processes is STOPPING, otherwise STARTING if any
    is STARTING or BACKOFF, otherwise RUNNING if any is RUNNING, otherwise STOPPED.'"""
    raises = ()

    def modifies(self):
        return []

    def post_definition(self, result):
        return result == ite(some_process(self, (ProcessStates.STOPPING,)), ApplicationStates.STOPPING,
                             ite(some_process(self, (ProcessStates.STARTING, ProcessStates.BACKOFF)),
                                 ApplicationStates.STARTING,
                                 ite(some_process(self, (ProcessStates.RUNNING,)), ApplicationStates.RUNNING,
                                     ApplicationStates.STOPPED)))

    def loop0_inv(self, seen, starting, running, stopping):
        """the three flags are the exists-summaries of the processes seen so far"""
        return (stopping == some_process_among(self, seen, (ProcessStates.STOPPING,))
                and starting == some_process_among(self, seen, (ProcessStates.STARTING, ProcessStates.BACKOFF))
                and running == some_process_among(self, seen, (ProcessStates.RUNNING,)))

    def loop0_modifies(self):
        return []


# ------------------------------------------------------------------------------------------ status without formula
def failed(p):
    """statement: '... is FATAL, UNKNOWN or unexpectedly EXITED'"""
    return (disp(p) in (ProcessStates.FATAL, ProcessStates.UNKNOWN)
            or (disp(p) == ProcessStates.EXITED and not p.expected_exit))


def required_failure(app, names):
    """statement: 'a required process is FATAL, UNKNOWN or unexpectedly EXITED'"""
    return exists(str, lambda n: n in names and app.processes[n].rules.required and failed(app.processes[n]))


def required_stopped(app, names):
    """statement: '... or STOPPED [while the application is not]'"""
    return exists(str, lambda n: n in names and app.processes[n].rules.required
                  and disp(app.processes[n]) == ProcessStates.STOPPED)


def optional_failure(app, names, sequenced):
    """statement: 'non-required processes of a managed application are so' (the start sequence only exists for managed
    applications; membership is by process name, as the code keys the start sequence by name)"""
    return exists(str, lambda n: n in names and not app.processes[n].rules.required and failed(app.processes[n])
                  and app.processes[n].process_name in sequenced)


@contract('application:ApplicationStatus.update_status_required', props=['C15'])
class UpdateStatusRequired:
    """statement: 'Without a formula, a major failure is reported when a required process is FATAL, UNKNOWN or
    unexpectedly EXITED, or STOPPED while the application is not, and a minor failure when only non-required processes
    of a managed application are so'.  Stated for any entry value of the two flags (the function only ever raises
    them); update() resets both before the call, which gives the statement as written (post_*_after_reset)."""
    raises = ()

    def modifies(self):
        return [field(self, 'major_failure'), field(self, 'minor_failure')]

    def post_major(self, old):
        return self.major_failure == (old.self.major_failure or required_failure(self, self.processes)
                                      or (self._state != ApplicationStates.STOPPED
                                          and required_stopped(self, self.processes)))

    def post_minor(self, sequenced_processes, old):
        return self.minor_failure == (not self.major_failure
                                      and (old.self.minor_failure
                                           or optional_failure(self, self.processes, sequenced_processes)))

    def post_major_after_reset(self, old):
        return implies(not old.self.major_failure,
                       self.major_failure == (required_failure(self, self.processes)
                                              or (self._state != ApplicationStates.STOPPED
                                                  and required_stopped(self, self.processes))))

    def post_minor_after_reset(self, sequenced_processes, old):
        return implies(not old.self.major_failure and not old.self.minor_failure,
                       self.minor_failure == (not self.major_failure
                                              and optional_failure(self, self.processes, sequenced_processes)))

    def loop0_inv(self, seen, loop_old, possible_major_failure, sequenced_processes):
        """flags = entry value or the exists-summary of the processes seen so far"""
        return (self.major_failure == (loop_old.self.major_failure or required_failure(self, seen))
                and self.minor_failure == (loop_old.self.minor_failure
                                           or optional_failure(self, seen, sequenced_processes))
                and possible_major_failure == required_stopped(self, seen))

    def loop0_modifies(self):
        return [field(self, 'major_failure'), field(self, 'minor_failure')]
