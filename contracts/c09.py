"""C09 - Stop sequences are honoured (clauses 1-2; the sequencing discipline itself is shared with C03, see c03.py)."""
from pyvc.spec import *

GROUP = 'commander'   # contracts of one group use each other's contracts at call sites (pyvc/hooks.py contract_for_call)
from contracts.c10 import target_info_known, STOPPED_LIKE


@contract('commander:ProcessStopCommand.on_event', props=['C09'])
class StopOnEvent:
    """statement: 'no process is asked to stop while a process ... with a higher stop_sequence is still running or
    stopping': a stop command is complete exactly when the target reports a stopped state"""
    raises = ()
    returns = 'ProcessRequestResult'

    def modifies(self):
        return []

    def pre_target(self):
        return target_info_known(self)

    def post_success_iff_stopped(self, result):
        st = self.process.info_map[self.identifier]['state']
        return result == (ProcessRequestResult.SUCCESS if st in STOPPED_LIKE else ProcessRequestResult.IN_PROGRESS)
