"""Assumed (NOT verified) effect-only contracts of the transport layer: the calls that leave the instance towards the
peers (RpcHandler -> proxy threads -> XML-RPC) or towards the listeners (external publisher).  They change nothing of
the state the properties talk about; each call is recorded in the ghost effect log under the bare method name.
The bodies of SupervisorProxyServer.get_proxy / push_* are verified separately (C13)."""
from pyvc.spec import *

GROUP = 'members'   # contracts of one group use each other's contracts at call sites (pyvc/hooks.py contract_for_call)


@contract('internal_com.rpchandler:RpcHandler.send_state_event', props=[])
class SendStateEvent:
    assumed = True
    raises = ()
    effect = 'send_state_event'

    def modifies(self):
        return []


@contract('internal_com.rpchandler:RpcHandler.send_check_instance', props=[])
class SendCheckInstance:
    assumed = True
    raises = ()
    effect = 'send_check_instance'

    def modifies(self):
        return []


@contract('external_com.eventinterface:EventPublisherInterface.send_supvisors_status', props=[])
class SendSupvisorsStatus:
    assumed = True
    raises = ()
    effect = 'send_supvisors_status'

    def modifies(self):
        return []


@contract('external_com.eventinterface:EventPublisherInterface.send_instance_status', props=[])
class SendInstanceStatus:
    assumed = True
    raises = ()
    effect = 'send_instance_status'

    def modifies(self):
        return []


@contract('external_com.eventinterface:EventPublisherInterface.send_process_status', props=[])
class SendProcessStatus:
    assumed = True
    raises = ()
    effect = 'send_process_status'

    def modifies(self):
        return []


@contract('external_com.eventinterface:EventPublisherInterface.send_application_status', props=[])
class SendApplicationStatus:
    assumed = True
    raises = ()
    effect = 'send_application_status'

    def modifies(self):
        return []


# ------------------------------------------------------------------------------------------ serialisation (read-only)
@contract('statemodes:SupvisorsStateModes.serial', props=[])
class StateModesSerial:
    """builds the payload published for the local state and modes: reads only (dict literal + update), never raises"""
    assumed = True
    raises = ()
    returns = 'Payload'

    def modifies(self):
        return []


@contract('statemodes:StateModes.serial', props=[])
class OneStateModesSerial:
    assumed = True
    raises = ()
    returns = 'Payload'

    def modifies(self):
        return []


@contract('instancestatus:SupvisorsInstanceStatus.serial', props=[])
class InstanceStatusSerial:
    """builds the payload published for one instance status (identifiers, state, load, times): reads only"""
    assumed = True
    raises = ()
    returns = 'Payload'

    def modifies(self):
        return []


@contract('context:Context.publish_process_failures', props=[])
class PublishProcessFailures:
    """publishes the failed processes and refreshes the status of their applications (ApplicationStatus.update, C15):
    writes ApplicationStatus fields only (_state, major_failure, minor_failure) - no instance status, no process status"""
    assumed = True
    raises = ()
    effect = 'publish_process_failures'

    def modifies(self):
        return [whole('F:_state:'), whole('F:major_failure:'), whole('F:minor_failure:')]

    def post_only_application_states(self, old):
        return (forall(ProcessStatus, lambda p: p._state == at(old, p)._state)
                and forall(SupvisorsInstanceStatus, lambda s: s._state == at(old, s)._state))


# --------------------------------------------------------------------------- call-outs of the Context process handlers
@contract('external_com.eventinterface:EventPublisherInterface.send_process_event', props=[])
class SendProcessEvent:
    assumed = True
    raises = ()
    effect = 'send_process_event'

    def modifies(self):
        return []


# ------------------------------------------------------------------------------------------ handshake XML-RPCs (C13)
# ASSUMED: the XML-RPC client of a peer.  SupervisorProxy._get_proxy builds it (supervisor.childutils.getRPCInterface);
# the methods of its `supvisors` namespace answer what the RPCInterface of the REMOTE instance returns - modelled as a
# PURE function of the client and the arguments returning a symbolic payload of the documented shape (two calls agree;
# specifications name the answer through the same uf) - or fail with an XML-RPC Fault (request refused by the remote,
# remote not ready) / a transport error (OSError).
def client_of(proxy):
    """ghost: the XML-RPC endpoint of the peer a SupervisorProxy talks to (re-creating the client object - local proxy,
    every 20 minutes - yields the same endpoint)"""
    return uf('xmlrpc_client', 'ServerProxy', proxy)


def remote_instance_info(proxy, identifier):
    """answer of the peer to supvisors.get_instance_info(identifier)"""
    return uf('remote_get_instance_info', 'List[Payload]', client_of(proxy).supvisors, identifier)


def remote_strategies(proxy):
    """answer of the peer to supvisors.get_strategies()"""
    return uf('remote_get_strategies', 'Payload', client_of(proxy).supvisors)


@contract('internal_com.supervisorproxy:SupervisorProxy._get_proxy', props=[])
class GetProxy:
    """builds the XML-RPC client from the Supervisor environment and the peer's host / port: reads only"""
    assumed = True
    raises = ()
    returns = 'ServerProxy'

    def modifies(self):
        return []

    def post_client(self, result):
        return result is client_of(self)


@external('SupvisorsRPC.get_instance_info')
class RemoteGetInstanceInfo:
    """RPCInterface.get_instance_info of the remote: the serial() payloads of the instances the identifier resolves to -
    at least one (BAD_NAME Fault otherwise), each carrying the state code the REMOTE gives that instance"""
    returns = 'List[Payload]'
    params = ['rpc', 'identifier']
    raises = ('supervisor.compat.xmlrpclib.Fault', 'OSError')

    def post_answer(rpc, identifier, result):
        return (result is uf('remote_get_instance_info', 'List[Payload]', rpc, identifier)
                and len(result) >= 1 and 'statecode' in result[0])


@external('SupvisorsRPC.get_strategies')
class RemoteGetStrategies:
    """RPCInterface.get_strategies of the remote: any dict (no key is assumed present: the comparison is what is proved)"""
    returns = 'Payload'
    params = ['rpc']
    raises = ('supervisor.compat.xmlrpclib.Fault', 'OSError')

    def post_answer(rpc, result):
        return result is uf('remote_get_strategies', 'Payload', rpc)


@external('SupvisorsRPC.get_network_info')
class RemoteGetNetworkInfo:
    """RPCInterface.get_network_info of the remote: its network description (identifier, nick, host, addresses), decoded
    into a NEW dict by the XML-RPC client (the caller stamps it)"""
    returns = 'Payload'
    fresh = True
    params = ['rpc', 'identifier']
    raises = ('supervisor.compat.xmlrpclib.Fault', 'OSError')


@external('SupvisorsRPC.get_instance_state_modes')
class RemoteGetInstanceStateModes:
    returns = 'List[Payload]'
    params = ['rpc', 'identifier']
    raises = ('supervisor.compat.xmlrpclib.Fault', 'OSError')


@external('SupvisorsRPC.get_all_local_process_info')
class RemoteGetAllLocalProcessInfo:
    returns = 'List[Payload]'
    params = ['rpc']
    raises = ('supervisor.compat.xmlrpclib.Fault', 'OSError')
