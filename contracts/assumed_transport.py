"""Assumed (NOT verified) effect-only contracts of the transport layer: the calls that leave the instance towards the
peers (RpcHandler -> proxy threads -> XML-RPC) or towards the listeners (external publisher).  They change nothing of
the state the properties talk about; each call is recorded in the ghost effect log under the bare method name.
The bodies of SupervisorProxyServer.get_proxy / push_* are verified separately (C13)."""
from pyvc.spec import *

GROUP = 'members'   # contracts of one group use each other's contracts at call sites (pyvc/hooks.py contract_for_call)


@contract('internal_com.rpchandler:RpcHandler.send_state_event', props=[])
class SendStateEvent:
    assumed = True
    raises = ()
    effect = 'send_state_event'

    def modifies(self):
        return []


@contract('internal_com.rpchandler:RpcHandler.send_check_instance', props=[])
class SendCheckInstance:
    assumed = True
    raises = ()
    effect = 'send_check_instance'

    def modifies(self):
        return []


@contract('external_com.eventinterface:EventPublisherInterface.send_supvisors_status', props=[])
class SendSupvisorsStatus:
    assumed = True
    raises = ()
    effect = 'send_supvisors_status'

    def modifies(self):
        return []


@contract('external_com.eventinterface:EventPublisherInterface.send_instance_status', props=[])
class SendInstanceStatus:
    assumed = True
    raises = ()
    effect = 'send_instance_status'

    def modifies(self):
        return []


@contract('external_com.eventinterface:EventPublisherInterface.send_process_status', props=[])
class SendProcessStatus:
    assumed = True
    raises = ()
    effect = 'send_process_status'

    def modifies(self):
        return []


@contract('external_com.eventinterface:EventPublisherInterface.send_application_status', props=[])
class SendApplicationStatus:
    assumed = True
    raises = ()
    effect = 'send_application_status'

    def modifies(self):
        return []


# ------------------------------------------------------------------------------------------ serialisation (read-only)
@contract('statemodes:SupvisorsStateModes.serial', props=[])
class StateModesSerial:
    """builds the payload published for the local state and modes: reads only (dict literal + update), never raises"""
    assumed = True
    raises = ()
    returns = 'Payload'

    def modifies(self):
        return []


@contract('statemodes:StateModes.serial', props=[])
class OneStateModesSerial:
    assumed = True
    raises = ()
    returns = 'Payload'

    def modifies(self):
        return []


@contract('instancestatus:SupvisorsInstanceStatus.serial', props=[])
class InstanceStatusSerial:
    """builds the payload published for one instance status (identifiers, state, load, times): reads only"""
    assumed = True
    raises = ()
    returns = 'Payload'

    def modifies(self):
        return []


@contract('context:Context.publish_process_failures', props=[])
class PublishProcessFailures:
    """publishes the failed processes and refreshes the status of their applications (ApplicationStatus.update, C15):
    writes ApplicationStatus fields only (_state, major_failure, minor_failure) - no instance status, no process status"""
    assumed = True
    raises = ()
    effect = 'publish_process_failures'

    def modifies(self):
        return [whole('F:_state:'), whole('F:major_failure:'), whole('F:minor_failure:')]

    def post_only_application_states(self, old):
        return (forall(ProcessStatus, lambda p: p._state == at(old, p)._state)
                and forall(SupvisorsInstanceStatus, lambda s: s._state == at(old, s)._state))
