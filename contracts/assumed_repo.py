"""Assumed (NOT verified here) contracts of repository functions that wrap Supervisor internals or the transport.
Each is listed in the evidence of the properties whose proofs go through it."""
from pyvc.spec import *

GROUP = 'rpc'   # contracts of one group use each other's contracts at call sites (pyvc/hooks.py contract_for_call)


@contract('supervisordata:SupervisorData.update_extra_args', props=[])
class UpdateExtraArgs:
    """touches Supervisor's own process objects only; KeyError when the namespec is unknown to the local Supervisor"""
    assumed = True
    raises = ('KeyError',)

    def modifies(self):
        return []


# ----------------------------------------------------------------------------------------------------------------------
# C17: what the XML-RPC commands trigger.  These entry points are NOT verified here (Starter / Stopper / strategies are
# the subject of C03, C04, C09, C10, C14; the FSM of C02, C08): only their *effect name* is logged, so that "a rejected
# request emits no start, stop or state change" is a predicate on the ghost effect log, and they are assumed not to raise
# (their own exception-safety is the subject of C16; DESIGN Appendix A23 is a known counter-example for
# Starter.start_application).  No `modifies`: anything may change.
# ----------------------------------------------------------------------------------------------------------------------
@contract('commander:Starter.start_applications', props=[])
class StarterStartApplications:
    assumed = True
    raises = ()
    effect = 'starter.start_applications'


@contract('commander:Starter.start_application', props=[])
class StarterStartApplication:
    assumed = True
    raises = ()
    effect = 'starter.start_application'


@contract('commander:Starter.start_process', props=[])
class StarterStartProcess:
    assumed = True
    raises = ()
    effect = 'starter.start_process'


@contract('commander:Starter.get_load_requests', props=[])
class StarterGetLoadRequests:
    """read-only accumulation of the loads requested by the jobs in progress"""
    assumed = True
    raises = ()

    def modifies(self):
        return []


@contract('commander:Commander.in_progress', props=[])
class CommanderInProgress:
    """read-only: 'there are still jobs planned or in progress' (the f-string of its trace call prints the job
    objects, which is outside the modelled subset)"""
    assumed = True
    raises = ()

    def modifies(self):
        return []

    def post_definition(self, result):
        return result == (len(self.planned_jobs) > 0 or len(self.current_jobs) > 0)


@contract('commander:Stopper.stop_application', props=[])
class StopperStopApplication:
    assumed = True
    raises = ()
    effect = 'stopper.stop_application'


@contract('commander:Stopper.restart_application', props=[])
class StopperRestartApplication:
    assumed = True
    raises = ()
    effect = 'stopper.restart_application'


@contract('commander:Stopper.stop_process', props=[])
class StopperStopProcess:
    assumed = True
    raises = ()
    effect = 'stopper.stop_process'


@contract('commander:Stopper.restart_process', props=[])
class StopperRestartProcess:
    assumed = True
    raises = ()
    effect = 'stopper.restart_process'


@contract('commander:Commander.next', props=[])
class CommanderNext:
    """triggers the planned jobs (requests are sent)"""
    assumed = True
    raises = ()
    effect = 'commander.next'


@contract('commander:StarterModel.test_start_application', props=[])
class StarterModelTestStartApplication:
    """prediction only (its side-effect freedom is C19)"""
    assumed = True
    raises = ()
    returns = 'List[Payload]'
    effect = 'starter_model.test_start_application'


@contract('commander:StarterModel.test_start_processes', props=[])
class StarterModelTestStartProcesses:
    assumed = True
    raises = ()
    returns = 'List[Payload]'
    types = {'processes': 'List[ProcessStatus]'}
    effect = 'starter_model.test_start_processes'


@contract('strategy:get_supvisors_instance', props=[])
class GetSupvisorsInstance:
    """pure choice of an instance (C14)"""
    assumed = True
    raises = ()
    returns = 'Optional[str]'

    def modifies():
        return []


@contract('strategy:conciliate_conflicts', props=[])
class ConciliateConflicts:
    assumed = True
    raises = ()
    effect = 'conciliate_conflicts'


@contract('context:Context.find_runnable_processes', props=[])
class FindRunnableProcesses:
    """[process ... if re.search(rf'{regex}', process.namespec) and not process.running()]: read-only; `regex` is the
    caller's string, so re.search raises re.error when it is not a valid pattern (Python library reference, re)"""
    assumed = True
    raises = ('re.error',)
    returns = 'List[ProcessStatus]'

    def modifies(self):
        return []


@contract('context:Context.conflicts', props=[])
class ContextConflicts:
    """read-only list of the conflicting processes of the managed applications (C05)"""
    assumed = True
    raises = ()
    returns = 'List[ProcessStatus]'

    def modifies(self):
        return []


@contract('supervisorupdater:SupervisorUpdater.update_numprocs', props=[])
class UpdaterUpdateNumprocs:
    """DESIGN C17 Assumed: 'supervisor_updater.* ... may raise RPCError/ValueError as documented' (ValueError when the
    program does not support numprocs)"""
    assumed = True
    raises = ('ValueError',)
    returns = 'Tuple[List[str], List[str]]'
    effect = 'supervisor_updater.update_numprocs'


@contract('supervisorupdater:SupervisorUpdater.enable_program', props=[])
class UpdaterEnableProgram:
    assumed = True
    raises = ()
    effect = 'supervisor_updater.enable_program'


@contract('supervisorupdater:SupervisorUpdater.disable_program', props=[])
class UpdaterDisableProgram:
    assumed = True
    raises = ()
    effect = 'supervisor_updater.disable_program'


@contract('options:SupvisorsServerOptions.get_subprocesses', props=[])
class ServerOptionsGetSubprocesses:
    """read-only; only called after `program_name in program_configs` has been checked and after
    supervisor_updater.enable_program / disable_program, which are assumed not to remove program configurations
    (otherwise KeyError)"""
    assumed = True
    raises = ()
    returns = 'List[str]'

    def modifies(self):
        return []


@contract('statemachine:FiniteStateMachine.set_state', props=[])
class FsmSetState:
    """the state change itself (C02 / C08 / C09): assumed not to raise"""
    assumed = True
    raises = ()
    effect = 'fsm.set_state'


@contract('statemachine:FiniteStateMachine.next', props=[])
class FsmNext:
    assumed = True
    raises = ()
    effect = 'fsm.next'


@contract('internal_com.rpchandler:RpcHandler.send_restart_all', props=[])
class SendRestartAll:
    assumed = True
    raises = ()
    effect = 'rpc_handler.send_restart_all'

    def modifies(self):
        return []


@contract('internal_com.rpchandler:RpcHandler.send_shutdown_all', props=[])
class SendShutdownAll:
    assumed = True
    raises = ()
    effect = 'rpc_handler.send_shutdown_all'

    def modifies(self):
        return []






@contract('process:ProcessStatus.possible_identifiers', props=[])
class PossibleIdentifiers:
    """read-only list of the identifiers where the program could be started (C04 / C14)"""
    assumed = True
    raises = ()
    returns = 'List[str]'

    def modifies(self):
        return []




@contract('statemodes:SupvisorsStateModes.select_master', props=[])
class SelectMaster:
    """Master election rule (verified for C01).  Assumed here not to raise when called from end_sync: in
    SYNCHRONIZATION the local instance is RUNNING, so there is at least one candidate (min() of an empty sequence would
    raise ValueError; DESIGN A24: KeyError when a RUNNING peer declares a Master unknown to the local mapper)."""
    assumed = True
    raises = ()
    effect = 'state_modes.select_master'

    def modifies(self):
        return [field(self.instance_state_modes[self.supvisors.mapper.local_identifier], 'master_identifier')]


@contract('rpcinterface:RPCInterface._check_process_insertion', props=[])
class RpcCheckProcessInsertion:
    """post-check of update_numprocs (NOT verified: its loop collects errors in a literal list): raises only
    RPCError(Faults.FAILED)"""
    assumed = True
    raises = ('RPCError',)

    def modifies(self):
        return []

    def exc_RPCError_failed(self, exc):
        return exc.code == Faults.FAILED


@contract('rpcinterface:RPCInterface._decrease_numprocs', props=[])
class RpcDecreaseNumprocs:
    """second half of update_numprocs when numprocs decreases (NOT verified: list comprehension calling
    context.get_process, filter()): stops the obsolete processes; raises only RPCError(FAILED / STILL_RUNNING).
    The value returned (True or the deferred closure) is opaque."""
    assumed = True
    raises = ('RPCError',)
    returns = 'bool'
    types = {'namespecs': 'List[str]', 'wait': 'bool'}
    effect = 'rpc._decrease_numprocs'

    def exc_RPCError_failed(self, exc):
        return exc.code == Faults.FAILED or exc.code == Faults.STILL_RUNNING


# ---- from the commander work (C03/C09/C10): transport effects and the re-entrant call-out
def reentrancy_discipline_extended(old):
    """see job_discipline_extended: NOT assumed by the registered proofs"""
    return (reentrancy_discipline(old)
            and forall(ApplicationJobs, lambda j: implies(is_alloc(old(j)), only_removed_or_triggered(j, old)))
            and forall(ApplicationJobs, lambda j: implies(is_alloc(old(j)), in_flight_untouched(j, old)))
            and reports_untouched(old) and other_command_lists_untouched(old))


def reentrancy_discipline(old):
    return (forall(ApplicationJobs, lambda j: implies(is_alloc(old(j)), keeps_list(j, old)))
            and forall(ApplicationJobs, lambda j: implies(is_alloc(old(j)), plan_only_shrinks(j, old)))
            and forall(ApplicationJobs, lambda j: implies(is_alloc(old(j)), plan_shrinks_in_order(j, old))))


def other_command_lists_untouched(old):
    """no list other than the in-flight list of a job is mutated by the re-entered code (planned groups, popped groups
    still being triggered and the caller's local copies keep their members)"""
    return forall('List[ProcessCommand]', lambda l: implies(
        is_alloc(old(l)),
        exists(ApplicationJobs, lambda j: is_alloc(old(j)) and old(j).current_jobs is l) or l == old(l)))


def record_untouched(r, old_r):
    return (r is old_r and ('state' in r) == ('state' in old_r) and ('event_time' in r) == ('event_time' in old_r)
            and ('expected' in r) == ('expected' in old_r) and r['state'] == old_r['state']
            and r['event_time'] == old_r['event_time'] and r['expected'] == old_r['expected'])


def reports_untouched(old):
    """a forced event only sets forced_state / forced_reason: the per-instance reports (info_map records), the rules and
    the tick counters of the instances are not written by the re-entered code"""
    return (forall(ProcessStatus, lambda p: implies(
                is_alloc(old(p)),
                p.info_map is old(p).info_map and p.rules is old(p).rules
                and p.rules.wait_exit == old(p).rules.wait_exit
                and forall(str, lambda i: (i in p.info_map) == (i in old(p).info_map)
                           and implies(i in p.info_map, record_untouched(p.info_map[i], old(p).info_map[i])))))
            and forall(SupvisorsInstanceStatus, lambda s: implies(
                is_alloc(old(s)), s.times is old(s).times
                and s.times.remote_sequence_counter == old(s).times.remote_sequence_counter)))


def job_discipline_extended(j, old):
    """additional clauses needed by the (not yet converged) contract of ApplicationJobs.check, see wip_c10_check.txt; NOT
    part of what the registered proofs assume"""
    return job_discipline(j, old) and only_removed_or_triggered(j, old) and in_flight_untouched(j, old)


def job_discipline(j, old):
    """What a call-out that re-enters the Starter / Stopper guarantees about an ApplicationJobs j that existed before:
    the job keeps its in-flight list object; commands are only ever removed from the job, or moved from its plan to its
    in-flight list by a re-entrant next() (never added from outside); planned groups that remain are the same list
    objects under the same sequence number; the plan only shrinks, in pickup order (re-entrant next()) or entirely
    (possibly to a new empty dict: ABORT / STOP)."""
    return keeps_list(j, old) and plan_only_shrinks(j, old) and plan_shrinks_in_order(j, old)


def in_flight_untouched(j, old):
    return forall(old(j).current_jobs, lambda c: command_untouched(c, old(c)))


def plan_shrinks_in_order(j, old):
    """sequence numbers leave the plan in pickup order (re-entrant next()) or all at once (ABORT / STOP)"""
    return forall(int, int, lambda s, r: implies(
        s in old(j).planned_jobs and s not in j.planned_jobs and r in j.planned_jobs, before_seq(j, s, r)))


def before_seq(j, a, b):
    """a is picked before b: lower start sequence first (min), higher stop sequence first (max)"""
    return a < b if isinstance(j, ApplicationStartJobs) else a > b


def plan_only_shrinks(j, old):
    return forall(int, lambda s: implies(s in j.planned_jobs, s in old(j).planned_jobs
                                         and j.planned_jobs[s] is old(j).planned_jobs[s]))


def only_removed_or_triggered(j, old):
    return forall(j.current_jobs, lambda c: c in old(j).current_jobs or in_plan(old(j), c))


def keeps_list(j, old):
    return j.current_jobs is old(j).current_jobs and j.application is old(j).application


def command_untouched(c, old_c):
    return (c.process is old_c.process and c.identifier == old_c.identifier and c.instance_status == old_c.instance_status
            and c.request_sequence_counter == old_c.request_sequence_counter and c._wait_ticks == old_c._wait_ticks
            and c.minimum_ticks == old_c.minimum_ticks)


def in_plan(j, c):
    return exists(int, lambda s: s in j.planned_jobs and c in j.planned_jobs[s])


# ---------------------------------------------------------------------------------------------- transport (effects)
@contract('internal_com.rpchandler:RpcHandler.send_start_process', props=[])
class SendStartProcess:
    """pushes a deferred XML-RPC request to the proxy thread (outside the model): no modelled state changes; the
    emission is recorded in the ghost effect log"""
    assumed = True
    effect = 'send_start_process'
    raises = ()

    def modifies(self):
        return []


@contract('internal_com.rpchandler:RpcHandler.send_stop_process', props=[])
class SendStopProcess:
    assumed = True
    effect = 'send_stop_process'
    raises = ()

    def modifies(self):
        return []


@contract('internal_com.rpchandler:RpcHandler.send_process_state_event', props=[])
class SendProcessStateEvent:
    """publication of a process event to the other Supvisors instances (effect only)"""
    assumed = True
    effect = 'send_process_state_event'
    raises = ()

    def modifies(self):
        return []


@contract('statemachine:FiniteStateMachine.on_process_state_event', props=[])
class FsmOnProcessStateEvent:
    """RE-ENTRANT CALL-OUT (DESIGN 1.5).  The forced event is applied locally: Context.on_process_state_event, then
    starter.on_event / stopper.on_event -> Commander.next, i.e. the Commander whose check() / next() is still running
    may be re-entered (and, through Starter.after / Stopper.after, the other Commander too).  Nothing is framed (no
    modifies clause: anything may change).  What is ASSUMED of the re-entered code is reentrancy_discipline:
    job_discipline for every ApplicationJobs alive before the call (the *_extended clauses - reports / in-flight commands /
    other lists untouched - are written down for the contract of check() but are not assumed by any registered proof).
    NOT assumed: that Commander.current_jobs / planned_jobs of the re-entered Commanders are unchanged - a re-entrant
    Commander.next retires any job that does not look in progress and may trigger the next applications; nor that the
    in-flight list of a job keeps its members (a re-entrant on_event removes completed commands).
    Known exclusion (reported in not_decided): Stopper.after -> starter.start_process -> add_commands can ADD a command
    to the plan of a Starter job while a Stopper chain is running."""
    assumed = True
    effect = 'fsm.on_process_state_event'
    raises = ()

    def post_discipline(self, old):
        return reentrancy_discipline(old)


# ---- from the rules work (C18)
@contract('supervisordata:SupervisorData.autorestart', props=[])
class SupervisorDataAutorestart:
    """reads Supervisor's own process configuration; KeyError when the namespec is unknown to the local Supervisor"""
    assumed = True
    raises = ('KeyError',)
    returns = 'bool'

    def modifies(self):
        return []


@contract('supervisordata:SupervisorData.disable_autorestart', props=[])
class SupervisorDataDisableAutorestart:
    """touches Supervisor's own process configuration only; KeyError when the namespec is unknown"""
    assumed = True
    raises = ('KeyError',)

    def modifies(self):
        return []


@contract('internal_com.mapper:SupvisorsMapper.filter', props=[])
class MapperFilter:
    """read-only: the known Supvisors identifiers designated by the list (identifier, nick identifier or stereotype);
    every element returned is a key of mapper.instances (the C01/C13 group carries a more precise assumed contract)"""
    assumed = True
    raises = ()
    types = {'identifier_list': 'List[str]'}

    def modifies(self):
        return []

    def post_known(self, result):
        return forall(int, lambda k: implies(0 <= k and k < len(result), result[k] in self.instances))
