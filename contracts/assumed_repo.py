"""Assumed (NOT verified here) contracts of repository functions that wrap Supervisor internals or the transport.
Each is listed in the evidence of the properties whose proofs go through it."""
from pyvc.spec import *


@contract('supervisordata:SupervisorData.update_extra_args', props=[])
class UpdateExtraArgs:
    """touches Supervisor's own process objects only; KeyError when the namespec is unknown to the local Supervisor"""
    assumed = True
    raises = ('KeyError',)

    def modifies(self):
        return []


# ---------------------------------------------------------------------------------------------- transport (effects)
@contract('internal_com.rpchandler:RpcHandler.send_start_process', props=[])
class SendStartProcess:
    """pushes a deferred XML-RPC request to the proxy thread (outside the model): no modelled state changes; the
    emission is recorded in the ghost effect log"""
    assumed = True
    effect = 'send_start_process'
    raises = ()

    def modifies(self):
        return []


@contract('internal_com.rpchandler:RpcHandler.send_stop_process', props=[])
class SendStopProcess:
    assumed = True
    effect = 'send_stop_process'
    raises = ()

    def modifies(self):
        return []


@contract('internal_com.rpchandler:RpcHandler.send_process_state_event', props=[])
class SendProcessStateEvent:
    """publication of a process event to the other Supvisors instances (effect only)"""
    assumed = True
    effect = 'send_process_state_event'
    raises = ()

    def modifies(self):
        return []


# ---------------------------------------------------------------------------------------------- re-entrant call-out
def in_plan(j, c):
    return exists(int, lambda s: s in j.planned_jobs and c in j.planned_jobs[s])


def command_untouched(c, old_c):
    return (c.process is old_c.process and c.identifier == old_c.identifier and c.instance_status == old_c.instance_status
            and c.request_sequence_counter == old_c.request_sequence_counter and c._wait_ticks == old_c._wait_ticks
            and c.minimum_ticks == old_c.minimum_ticks)


def keeps_list(j, old):
    return j.current_jobs is old(j).current_jobs and j.application is old(j).application


def only_removed_or_triggered(j, old):
    return forall(j.current_jobs, lambda c: c in old(j).current_jobs or in_plan(old(j), c))


def plan_only_shrinks(j, old):
    return forall(int, lambda s: implies(s in j.planned_jobs, s in old(j).planned_jobs
                                         and j.planned_jobs[s] is old(j).planned_jobs[s]))


def before_seq(j, a, b):
    """a is picked before b: lower start sequence first (min), higher stop sequence first (max)"""
    return a < b if isinstance(j, ApplicationStartJobs) else a > b


def plan_shrinks_in_order(j, old):
    """sequence numbers leave the plan in pickup order (re-entrant next()) or all at once (ABORT / STOP)"""
    return forall(int, int, lambda s, r: implies(
        s in old(j).planned_jobs and s not in j.planned_jobs and r in j.planned_jobs, before_seq(j, s, r)))


def in_flight_untouched(j, old):
    return forall(old(j).current_jobs, lambda c: command_untouched(c, old(c)))


def job_discipline(j, old):
    """What a call-out that re-enters the Starter / Stopper guarantees about an ApplicationJobs j that existed before:
    the job keeps its in-flight list object; commands are only ever removed from the job, or moved from its plan to its
    in-flight list by a re-entrant next() (never added from outside); planned groups that remain are the same list
    objects under the same sequence number; the plan only shrinks, in pickup order (re-entrant next()) or entirely
    (possibly to a new empty dict: ABORT / STOP)."""
    return keeps_list(j, old) and plan_only_shrinks(j, old) and plan_shrinks_in_order(j, old)


def job_discipline_extended(j, old):
    """additional clauses needed by the (not yet converged) contract of ApplicationJobs.check, see wip_c10_check.txt; NOT
    part of what the registered proofs assume"""
    return job_discipline(j, old) and only_removed_or_triggered(j, old) and in_flight_untouched(j, old)


def reports_untouched(old):
    """a forced event only sets forced_state / forced_reason: the per-instance reports (info_map records), the rules and
    the tick counters of the instances are not written by the re-entered code"""
    return (forall(ProcessStatus, lambda p: implies(
                is_alloc(old(p)),
                p.info_map is old(p).info_map and p.rules is old(p).rules
                and p.rules.wait_exit == old(p).rules.wait_exit
                and forall(str, lambda i: (i in p.info_map) == (i in old(p).info_map)
                           and implies(i in p.info_map, record_untouched(p.info_map[i], old(p).info_map[i])))))
            and forall(SupvisorsInstanceStatus, lambda s: implies(
                is_alloc(old(s)), s.times is old(s).times
                and s.times.remote_sequence_counter == old(s).times.remote_sequence_counter)))


def record_untouched(r, old_r):
    return (r is old_r and ('state' in r) == ('state' in old_r) and ('event_time' in r) == ('event_time' in old_r)
            and ('expected' in r) == ('expected' in old_r) and r['state'] == old_r['state']
            and r['event_time'] == old_r['event_time'] and r['expected'] == old_r['expected'])


def other_command_lists_untouched(old):
    """no list other than the in-flight list of a job is mutated by the re-entered code (planned groups, popped groups
    still being triggered and the caller's local copies keep their members)"""
    return forall('List[ProcessCommand]', lambda l: implies(
        is_alloc(old(l)),
        exists(ApplicationJobs, lambda j: is_alloc(old(j)) and old(j).current_jobs is l) or l == old(l)))


def reentrancy_discipline(old):
    return (forall(ApplicationJobs, lambda j: implies(is_alloc(old(j)), keeps_list(j, old)))
            and forall(ApplicationJobs, lambda j: implies(is_alloc(old(j)), plan_only_shrinks(j, old)))
            and forall(ApplicationJobs, lambda j: implies(is_alloc(old(j)), plan_shrinks_in_order(j, old))))


def reentrancy_discipline_extended(old):
    """see job_discipline_extended: NOT assumed by the registered proofs"""
    return (reentrancy_discipline(old)
            and forall(ApplicationJobs, lambda j: implies(is_alloc(old(j)), only_removed_or_triggered(j, old)))
            and forall(ApplicationJobs, lambda j: implies(is_alloc(old(j)), in_flight_untouched(j, old)))
            and reports_untouched(old) and other_command_lists_untouched(old))


@contract('statemachine:FiniteStateMachine.on_process_state_event', props=[])
class FsmOnProcessStateEvent:
    """RE-ENTRANT CALL-OUT (DESIGN 1.5).  The forced event is applied locally: Context.on_process_state_event, then
    starter.on_event / stopper.on_event -> Commander.next, i.e. the Commander whose check() / next() is still running
    may be re-entered (and, through Starter.after / Stopper.after, the other Commander too).  Nothing is framed (no
    modifies clause: anything may change).  What is ASSUMED of the re-entered code is reentrancy_discipline:
    job_discipline for every ApplicationJobs alive before the call (the *_extended clauses - reports / in-flight commands /
    other lists untouched - are written down for the contract of check() but are not assumed by any registered proof).
    NOT assumed: that Commander.current_jobs / planned_jobs of the re-entered Commanders are unchanged - a re-entrant
    Commander.next retires any job that does not look in progress and may trigger the next applications; nor that the
    in-flight list of a job keeps its members (a re-entrant on_event removes completed commands).
    Known exclusion (reported in not_decided): Stopper.after -> starter.start_process -> add_commands can ADD a command
    to the plan of a Starter job while a Stopper chain is running."""
    assumed = True
    effect = 'fsm.on_process_state_event'
    raises = ()

    def post_discipline(self, old):
        return reentrancy_discipline(old)
