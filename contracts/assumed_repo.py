"""Assumed (NOT verified here) contracts of repository functions that wrap Supervisor internals or the transport.
Each is listed in the evidence of the properties whose proofs go through it."""
from pyvc.spec import *


@contract('supervisordata:SupervisorData.update_extra_args', props=[])
class UpdateExtraArgs:
    """touches Supervisor's own process objects only; KeyError when the namespec is unknown to the local Supervisor"""
    assumed = True
    raises = ('KeyError',)

    def modifies(self):
        return []


@contract('supervisordata:SupervisorData.autorestart', props=[])
class SupervisorDataAutorestart:
    """reads Supervisor's own process configuration; KeyError when the namespec is unknown to the local Supervisor"""
    assumed = True
    raises = ('KeyError',)
    returns = 'bool'

    def modifies(self):
        return []


@contract('supervisordata:SupervisorData.disable_autorestart', props=[])
class SupervisorDataDisableAutorestart:
    """touches Supervisor's own process configuration only; KeyError when the namespec is unknown"""
    assumed = True
    raises = ('KeyError',)

    def modifies(self):
        return []
