"""Assumed (NOT verified here) contracts of repository functions the FSM proofs (C02 / C08 / C09 clause 3) go through and
that belong to the transport or to other properties.  Each one is listed in the evidence of the properties using it."""
from pyvc.spec import *

GROUP = 'fsm'   # contracts of one group use each other's contracts at call sites (pyvc/hooks.py contract_for_call)


# ------------------------------------------------------------------------------------------ transport (effect only)
@contract('internal_com.rpchandler:RpcHandler.send_state_event', props=[])
class SendStateEvent:
    """pushes the payload on the publication queue of the proxy thread; nothing of the modelled state changes"""
    assumed = True
    effect = 'send_state_event'
    raises = ()

    def modifies(self, payload):
        return []


@contract('internal_com.rpchandler:RpcHandler.send_restart', props=[])
class SendRestart:
    assumed = True
    effect = 'send_restart'
    raises = ()

    def modifies(self, identifier):
        return []


@contract('internal_com.rpchandler:RpcHandler.send_shutdown', props=[])
class SendShutdown:
    assumed = True
    effect = 'send_shutdown'
    raises = ()

    def modifies(self, identifier):
        return []


@contract('internal_com.rpchandler:RpcHandler.send_restart_all', props=[])
class SendRestartAll:
    assumed = True
    effect = 'send_restart_all'
    raises = ()

    def modifies(self, identifier):
        return []


@contract('internal_com.rpchandler:RpcHandler.send_shutdown_all', props=[])
class SendShutdownAll:
    assumed = True
    effect = 'send_shutdown_all'
    raises = ()

    def modifies(self, identifier):
        return []


@contract('statemodes:SupvisorsStateModes.export_status', props=[])
class ExportStatus:
    """publication to the external listeners (ZMQ / websocket): outside the modelled state"""
    assumed = True
    effect = 'export_status'
    raises = ()

    def modifies(self):
        return []


# ------------------------------------------------------------------------------------------ Context (C07 / C12 own them)
from contracts.c02 import (PROT, VIEW_PROT, ISM, LID, LOCAL, master, sees_running, valid, coupled, but_view,
                           but_wiring, instance_states_step)


@contract('context:Context.invalidate_failed', props=[])
class InvalidateFailed:
    """FAILED instances become STOPPED or ISOLATED through the SupvisorsInstanceStatus.state setter; returns the
    invalidated identifiers and the processes lost with them"""
    assumed = True
    raises = ()
    returns = 'Tuple[List[str], Set[ProcessStatus]]'

    def modifies(self):
        return [but_wiring(self)]

    def post_step(self, old):
        return instance_states_step(self, old.self, (SupvisorsInstanceStates.FAILED,),
                                    (SupvisorsInstanceStates.STOPPED, SupvisorsInstanceStates.ISOLATED))

    def post_shape(self, old):
        return implies(valid(old.self.supvisors) and coupled(old.self.supvisors),
                       valid(self.supvisors) and coupled(self.supvisors))

    def post_result(self, result):
        return was_fresh(result[0]) and was_fresh(result[1])


@contract('context:Context.activate_checked', props=[])
class ActivateChecked:
    """CHECKED instances become RUNNING through the SupvisorsInstanceStatus.state setter; returns their identifiers"""
    assumed = True
    raises = ()

    def modifies(self):
        return [but_wiring(self)]

    def post_step(self, old):
        return instance_states_step(self, old.self, (SupvisorsInstanceStates.CHECKED,),
                                    (SupvisorsInstanceStates.RUNNING,))

    def post_shape(self, old):
        return implies(valid(old.self.supvisors) and coupled(old.self.supvisors),
                       valid(self.supvisors) and coupled(self.supvisors))

    def post_result(self, result):
        return was_fresh(result)


# ------------------------------------------------------------------------------------------ C01 owns the election rule
@contract('statemodes:SupvisorsStateModes.select_master', props=[])
class SelectMaster:
    """C01 clause 1 states the choice; here only: it writes the local Master declaration (and publishes).  Its
    exception-safety (min of an empty candidate set, Master unknown to the mapper) is C01 / C16's."""
    assumed = True
    effect = 'select_master'
    raises = ()

    def modifies(self):
        return [field(LOCAL(self), 'master_identifier')]


@contract('statemodes:SupvisorsStateModes.accept_master', props=[])
class AcceptMaster:
    assumed = True
    raises = ()

    def modifies(self):
        return [field(LOCAL(self), 'master_identifier')]


@contract('statemodes:SupvisorsStateModes.evaluate_stability', props=[])
class EvaluateStability:
    """only the stability synthesis is written (C01 clause 4 states its value)"""
    assumed = True
    raises = ()

    def modifies(self):
        return [field(self, 'stable_identifiers')]


@contract('internal_com.mapper:SupvisorsMapper.core_identifiers[getter]', props=[])
class CoreIdentifiers:
    """C18: the configured core identifiers filtered against the known instances"""
    assumed = True
    raises = ()
    returns = 'List[str]'

    def modifies(self):
        return []


# ------------------------------------------------------------------------------------------ Starter / Stopper / failure
# handler / conciliation call-outs (C03, C05, C06, C09, C10 own them).  Assumed here: they do not touch the wiring nor the
# state & modes view the FSM decides on.  NOT modelled: a re-entrant FSM transition out of these call-outs (a forced
# process event with running failure strategy RESTART / SHUTDOWN calls fsm.on_restart / on_shutdown on the Master).
def view_kept(s, o):
    return (forall(str, lambda i: (i in ISM(s)) == (i in ISM(o)) and implies(i in ISM(s), ISM(s)[i] is ISM(o)[i]))
            and forall(str, lambda i: (i in LOCAL(s).instance_states) == (i in LOCAL(o).instance_states)
                       and implies(i in LOCAL(s).instance_states,
                                   LOCAL(s).instance_states[i] == LOCAL(o).instance_states[i]))
            and implies(valid(o.supvisors) and coupled(o.supvisors), valid(s.supvisors) and coupled(s.supvisors)))


@contract('commander:Commander.on_instances_invalidation', props=[])
class CommanderOnInstancesInvalidation:
    """C10 mechanism 'jobs dropped with their instance' (commander group owns what it does).  Effect logged WITH its
    receiver: the Starter and the Stopper inherit the same method"""
    assumed = True
    effect = 'on_instances_invalidation'
    effect_receiver = True
    raises = ()

    def modifies(self, invalidated_identifiers, failed_processes):
        return [but_view(self)]

    def post_view(self, old):
        return view_kept(self, old.self)


@contract('commander:Commander.check', props=[])
class CommanderCheck:
    """C10 mechanism 'periodic timeout check' (commander group owns what it does).  Effect logged WITH its receiver"""
    assumed = True
    effect = 'commander_check'
    effect_receiver = True
    raises = ()

    def modifies(self):
        return [but_view(self)]

    def post_view(self, old):
        return view_kept(self, old.self)


@contract('commander:Commander.on_event', props=[])
class CommanderOnEvent:
    """C10 owns it (the acknowledgement ends / advances the job).  Effect logged WITH its receiver"""
    assumed = True
    effect = 'commander_on_event'
    effect_receiver = True
    raises = ()

    def modifies(self, process, identifier):
        return [but_view(self)]

    def post_view(self, old):
        return view_kept(self, old.self)


@contract('context:Context.on_process_state_event', props=[])
class ContextOnProcessStateEvent:
    """C11 / C12 own it: the event is applied to the ProcessStatus it names (None: unknown process, or sender not CHECKED
    / RUNNING); the instance states and the state & modes view are not touched"""
    assumed = True
    raises = ()
    returns = 'Optional[ProcessStatus]'

    def modifies(self, status, event):
        return [but_view(self)]

    def post_view(self, old):
        return view_kept(self, old.self)


@contract('commander:Starter.start_applications', props=[])
class StarterStartApplications:
    assumed = True
    effect = 'start_applications'
    raises = ()

    def modifies(self):
        return [but_view(self)]

    def post_view(self, old):
        return view_kept(self, old.self)


@contract('commander:Stopper.stop_applications', props=[])
class StopperStopApplications:
    assumed = True
    effect = 'stop_applications'
    raises = ()

    def modifies(self):
        return [but_view(self)]

    def post_view(self, old):
        return view_kept(self, old.self)


@contract('strategy:RunningFailureHandler.add_default_job', props=[])
class FailureAddDefaultJob:
    assumed = True
    effect = 'add_default_job'
    raises = ()

    def modifies(self, process):
        return [but_view(self)]

    def post_view(self, old):
        return view_kept(self, old.self)


@contract('strategy:RunningFailureHandler.trigger_jobs', props=[])
class FailureTriggerJobs:
    assumed = True
    effect = 'trigger_jobs'
    raises = ()

    def modifies(self):
        return [but_view(self)]

    def post_view(self, old):
        return view_kept(self, old.self)


@contract('strategy:conciliate_conflicts', props=[])
class ConciliateConflicts:
    assumed = True
    effect = 'conciliate_conflicts'
    raises = ()
    types = {'supvisors': 'Supvisors', 'strategy': 'ConciliationStrategies', 'conflicts': 'List[ProcessStatus]'}

    def modifies(supvisors, strategy, conflicts):
        return [but_view(supvisors.fsm)]

    def post_view(supvisors, old):
        return view_kept(supvisors.fsm, old.supvisors.fsm)


@contract('context:Context.conflicting', props=[])
class ContextConflicting:
    """C05 owns the detection; here: a side-effect free query"""
    assumed = True
    raises = ()

    def modifies(self):
        return []


@contract('context:Context.conflicts', props=[])
class ContextConflicts:
    assumed = True
    raises = ()

    def modifies(self):
        return []

    def post_fresh(self, result):
        return was_fresh(result)


@contract('context:Context.running_identifiers', props=[])
class ContextRunningIdentifiers:
    """only used in log messages of the FSM"""
    assumed = True
    raises = ()

    def modifies(self):
        return []


@contract('context:Context.on_timer_event', props=[])
class ContextOnTimerEvent:
    """C07 owns it: silent instances become FAILED through the SupvisorsInstanceStatus.state setter"""
    assumed = True
    raises = ()

    def modifies(self, event):
        return [but_wiring(self)]

    def post_step(self, old):
        return instance_states_step(self, old.self,
                                    (SupvisorsInstanceStates.CHECKING, SupvisorsInstanceStates.CHECKED,
                                     SupvisorsInstanceStates.RUNNING), (SupvisorsInstanceStates.FAILED,))

    def post_shape(self, old):
        return implies(valid(old.self.supvisors) and coupled(old.self.supvisors),
                       valid(self.supvisors) and coupled(self.supvisors))


@contract('statemodes:StateModes.update', props=[])
class StateModesUpdate:
    """a peer's publication overwrites the fields of ITS entry only (payload well-formedness is C12 / C16's)"""
    assumed = True
    raises = ()

    def modifies(self, payload):
        return [field(self, 'state'), field(self, 'degraded_mode'), field(self, 'discovery_mode'),
                field(self, 'master_identifier'), field(self, 'starting_jobs'), field(self, 'stopping_jobs'),
                field(self, 'instance_states')]
