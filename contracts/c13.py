"""C13 - Isolation is permanent, reciprocal and airtight (non-interference frames of the handlers that receive what a
peer sends; permanence itself is C07: empty ISOLATED row of the transition table, single writer)."""
from pyvc.spec import *

GROUP = 'members'   # contracts of one group use each other's contracts at call sites (pyvc/hooks.py contract_for_call)

from contracts.c07 import valid_structure, distinct_entries, status_pre, setter_frame

ISOLATED = SupvisorsInstanceStates.ISOLATED
CHECKING = SupvisorsInstanceStates.CHECKING


@contract('internal_com.mapper:SupvisorsInstanceId.is_valid', props=[])
class InstanceIdIsValid:
    """ASSUMED external predicate (DESIGN C13.1): does the IPv4 address / port of the sender fit this instance"""
    assumed = True
    raises = ()
    returns = 'bool'
    types = {'ipv4_address': 'Tuple[str, int]'}

    def modifies(self):
        return []


def resolves(mapper, c, x):
    """SupvisorsMapper.filter: entry c resolves to identifier x"""
    return ite(c in mapper._instances, x == c,
               ite(c in mapper._nick_identifiers, x == mapper._nick_identifiers[c],
                   c in mapper.stereotypes and x in mapper.stereotypes[c]))


@contract('context:Context.is_valid', props=['C13'])
class IsValid:
    """statement: 'An instance that the local instance has marked ISOLATED stays so ...: no tick, process event, state
    publication or handshake result coming from it changes any status afterwards' - the origin filter returns no status
    for an ISOLATED origin, for an unknown origin and for an ambiguous one ('messages whose claimed origin does not
    match')."""
    raises = ()
    types = {'ipv4_address': 'Tuple[str, int]'}

    def modifies(self):
        return []

    def pre_valid(self):
        sv = self.supvisors
        return sv.context is self and valid_structure(sv)

    def pre_mapper_closed(self):
        """mapper invariant (add_instance, _assign_stereotypes): nick identifiers and stereotypes only name known
        instances"""
        m = self.supvisors.mapper
        return (forall(str, lambda c: implies(c in m._nick_identifiers, m._nick_identifiers[c] in m._instances))
                and forall(str, str, lambda c, x: implies(c in m.stereotypes and x in m.stereotypes[c],
                                                          x in m._instances)))

    def post_never_an_isolated_status(self, result):
        """(the status returned is one of the context - next clause - so this covers every status it can return)"""
        return forall(str, lambda i: implies(i in self.instances and self.instances[i] is result,
                                             self.instances[i]._state != ISOLATED))

    def post_status_of_the_claimed_origin(self, identifier, nick_identifier, result):
        m = self.supvisors.mapper
        return implies(result is not None,
                       exists(str, lambda x: x in self.instances and self.instances[x] is result
                              and (resolves(m, identifier, x) or resolves(m, nick_identifier, x))))

    def post_unknown_origin(self, identifier, nick_identifier, result):
        m = self.supvisors.mapper
        return implies(not exists(str, lambda x: resolves(m, identifier, x) or resolves(m, nick_identifier, x)),
                       result is None)

    def post_ambiguous_origin(self, identifier, nick_identifier, result):
        m = self.supvisors.mapper
        return implies(exists(str, str, lambda x, y: x != y
                              and (resolves(m, identifier, x) or resolves(m, nick_identifier, x))
                              and (resolves(m, identifier, y) or resolves(m, nick_identifier, y))),
                       result is None)


def auth_state(ctx, status, code):
    """statement: 'a peer that reports the local instance as ISOLATED, or whose ... strategies differ from the local
    ones, is marked ISOLATED instead of being admitted' (NOT_AUTHORIZED, INCONSISTENT, and any unknown code); admitted
    (CHECKED) only when AUTHORIZED; no answer (UNKNOWN) = back to STOPPED; the local instance is never ISOLATED"""
    local = status.supvisors_id.identifier == ctx.supvisors.mapper.local_identifier
    return ite(code == AuthorizationTypes.UNKNOWN.value, SupvisorsInstanceStates.STOPPED,
               ite(code == AuthorizationTypes.AUTHORIZED.value, SupvisorsInstanceStates.CHECKED,
                   ite(local, SupvisorsInstanceStates.STOPPED, ISOLATED)))


@contract('context:Context.on_authorization', props=['C13'])
class OnAuthorization:
    """statement: handshake outcome; 'stale or duplicated handshake notifications' change nothing: the result is only
    taken from a peer in CHECKING state with a timestamp later than the entry in CHECKING."""
    raises = ()

    def modifies(self, status):
        return setter_frame(status)

    def pre_valid(self, status, event):
        return (status.supvisors is self.supvisors and self.supvisors.context is self and status_pre(status)
                and 'authorization' in event and 'now_monotonic' in event)

    def post_stale_is_ignored(self, status, event, old):
        return implies(not (old.status._state == CHECKING and event['now_monotonic'] > old.status.checking_time),
                       status._state == old.status._state and no_effect())

    def post_outcome(self, status, event, old):
        return implies(old.status._state == CHECKING and event['now_monotonic'] > old.status.checking_time,
                       status._state == auth_state(self, old.status, event['authorization']))

    def post_isolated_stays_isolated(self, status, old):
        return implies(old.status._state == ISOLATED, status._state == ISOLATED)


@contract('internal_com.mapper:SupvisorsMapper.identify', props=[])
class MapperIdentify:
    """ASSUMED: stores the network views / stereotypes of the identified instance in the mapper (SupvisorsInstanceId
    views, nodes, stereotypes); touches no instance status"""
    assumed = True
    raises = ()
    effect = 'mapper_identify'

    def modifies(self):
        return [whole('F:remote_view:'), whole('F:local_view:'), whole('F:stereotypes:'), contents(self.nodes),
                contents(self.stereotypes), whole('L.')]


@contract('context:Context.on_identification_event', props=['C13'])
class OnIdentificationEvent:
    """statement: 'no ... handshake result coming from it changes any status afterwards': the network information of a
    peer is only taken into account while it is CHECKING with a fresh timestamp.  The notification is pushed by
    SupervisorProxy._transfer_network_info with network_info = None when the remote answered with a Fault."""
    raises = ()
    types = {'event': 'Optional[Payload]'}

    def pre_valid(self, event):
        sv = self.supvisors
        return (sv.context is self and valid_structure(sv)
                and implies(event is not None, 'identifier' in event and 'now_monotonic' in event
                            and event['identifier'] in self.instances))

    def post_states_untouched(self, old):
        return forall(str, lambda i: implies(i in self.instances,
                                             self.instances[i]._state == old.self.instances[i]._state))

    def post_only_while_checking(self, event, old):
        st = old.self.instances[event['identifier']]
        return implies(not (st._state == CHECKING and event['now_monotonic'] > st.checking_time), no_effect())


# ------------------------------------------------------------------------------------------ the handshake decision
from contracts.assumed_transport import client_of, remote_instance_info, remote_strategies

STRATEGY_KEYS = ('auto-fencing', 'starting', 'conciliation', 'supvisors_failure')   # RPCInterface.get_strategies
INSTANCE_STATE_CODES = (0, 1, 2, 3, 4, 5)     # SupvisorsInstanceStates: STOPPED .. ISOLATED = range(6)
AUTHORIZED = AuthorizationTypes.AUTHORIZED


def same_strategies(answer, options):
    """statement: 'whose auto_fence, starting, conciliation or supvisors_failure strategies differ from the local ones':
    the remote get_strategies() answer equals the local one ON EVERY KEY"""
    return (all(k in answer for k in STRATEGY_KEYS)
            and answer['auto-fencing'] == options.auto_fence
            and answer['starting'] == options.starting_strategy.name
            and answer['conciliation'] == options.conciliation_strategy.name
            and answer['supvisors_failure'] == options.supvisors_failure_strategy.name)


def seen_isolated_or_unknown(code):
    """statement: 'a peer that reports the local instance as ISOLATED' (or an unknown state code)"""
    return code == ISOLATED.value or code not in INSTANCE_STATE_CODES


def local_seen_by_remote(proxy):
    """the state code the remote gives the LOCAL instance (first payload of its get_instance_info answer)"""
    return remote_instance_info(proxy, proxy.supvisors.mapper.local_identifier)[0]['statecode']


def proxy_pre(proxy):
    """the cached XML-RPC client, if any, is the client of this peer (SupervisorProxy.proxy is its only writer)"""
    return proxy._proxy is None or proxy._proxy is client_of(proxy)


@contract('internal_com.supervisorproxy:SupervisorProxy._is_authorized', props=['C13'])
class IsAuthorized:
    """statement: 'During the handshake, a peer that reports the local instance as ISOLATED, or whose auto_fence, starting,
    conciliation or supvisors_failure strategies differ from the local ones, is marked ISOLATED instead of being
    admitted' - the decision taken from the two XML-RPC answers of the peer (assumed externals, contracts/
    assumed_transport.py: pure functions of the client returning a symbolic payload, or a Fault / transport error).
    The proxy runs in its own thread: the body is verified as SEQUENTIAL code."""
    raises = ('SupervisorProxyException',)

    def modifies(self):
        return [field(self, '_proxy'), field(self, 'connected'), field(self, 'last_used')]

    def pre_client(self):
        return proxy_pre(self)

    def post_client(self):
        return proxy_pre(self)

    def post_authorized_only_when(self, result):
        """AUTHORIZED only when the remote does not see the local instance ISOLATED and every strategy is the same"""
        return implies(result == AUTHORIZED,
                       not seen_isolated_or_unknown(local_seen_by_remote(self))
                       and same_strategies(remote_strategies(self), self.supvisors.options))

    def post_not_authorized_iff_seen_isolated(self, result):
        """once the remote has answered (no answer = UNKNOWN, the peer goes back to STOPPED and is checked again)"""
        return implies(result != AuthorizationTypes.UNKNOWN,
                       (result == AuthorizationTypes.NOT_AUTHORIZED)
                       == seen_isolated_or_unknown(local_seen_by_remote(self)))

    def post_effect_none(self):
        return no_effect()

    def exc_SupervisorProxyException_effect_none(self, exc):
        return no_effect()


# ------------------------------------------------------------------------------------------ the handshake itself
def origin_known(proxy):
    """the proxy of a peer is created by SupervisorProxyServer.get_proxy from a status of the context"""
    return proxy.status.supvisors_id.identifier in proxy.supvisors.mapper._instances


TRANSFER_FRAME = ('_proxy', 'connected', 'last_used')


@contract('internal_com.supervisorproxy:SupervisorProxy._transfer_network_info', props=['C13'])
class TransferNetworkInfo:
    """IDENTIFICATION notification: the network information of the peer, stamped with the HANDSHAKE timestamp it is
    given (Context.on_identification_event discards it unless later than the entry in CHECKING); None / empty when the
    remote did not answer.  Sequential code."""
    raises = ('SupervisorProxyException',)
    effect = 'transfer_network_info'

    def modifies(self):
        return [field(self, f) for f in TRANSFER_FRAME]

    def pre_client(self):
        return proxy_pre(self) and origin_known(self)

    def post_client(self):
        return proxy_pre(self)

    def post_effect_one_identification(self, timestamp):
        note = effect_at('push_notification', 0)[0] if count_effects('push_notification') == 1 else None
        return (note[1][0] == NotificationHeaders.IDENTIFICATION.value
                and (('now_monotonic' in note[1][1] and note[1][1]['now_monotonic'] == timestamp)
                     if note[1][1] else True)
                if count_effects('push_notification') == 1 else False)


@contract('internal_com.supervisorproxy:SupervisorProxy._transfer_states_modes', props=[])
class TransferStatesModes:
    """STATE notification with the state & modes of the peer (when it answers exactly one payload).  Sequential code."""
    raises = ('SupervisorProxyException',)
    effect = 'transfer_states_modes'

    def modifies(self):
        return [field(self, f) for f in TRANSFER_FRAME]

    def pre_client(self):
        return proxy_pre(self) and origin_known(self)

    def post_client(self):
        return proxy_pre(self)


@contract('internal_com.supervisorproxy:SupervisorProxy._transfer_process_info', props=[])
class TransferProcessInfo:
    """ALL_INFO notification with the process table of the peer (the handshake snapshot of C12).  Sequential code."""
    raises = ('SupervisorProxyException',)
    effect = 'transfer_process_info'

    def modifies(self):
        return [field(self, f) for f in TRANSFER_FRAME]

    def pre_client(self):
        return proxy_pre(self) and origin_known(self)

    def post_client(self):
        return proxy_pre(self)


def auth_note(k):
    return effect_at('push_notification', k)[0]


@contract('internal_com.supervisorproxy:SupervisorProxy.check_instance', props=['C13', 'C12'])
class CheckInstance:
    """statement C13: 'stale or duplicated handshake notifications' change nothing - Context.on_authorization only takes
    a result whose timestamp is later than the entry in CHECKING, so the AUTHORIZATION notification must carry THE
    TIMESTAMP TAKEN WHEN THE HANDSHAKE STARTED (read before anything else, the one handed to the IDENTIFICATION
    transfer), not a later clock value; it carries the decision of _is_authorized ('a peer that reports the local
    instance as ISOLATED, or whose ... strategies differ ... is marked ISOLATED instead of being admitted'), and the
    state & modes and the process snapshot (C12 'snapshot at handshake') are only forwarded for an AUTHORIZED peer.
    The callees _transfer_* / _is_authorized are taken by their contracts: their own notifications are not in this log.
    The proxy runs in its own thread: the body is verified as SEQUENTIAL code."""
    raises = ('SupervisorProxyException',)

    def modifies(self):
        return [field(self, f) for f in TRANSFER_FRAME]

    def pre_client(self):
        return proxy_pre(self) and origin_known(self)

    def post_effect_timestamp_first(self):
        """the first thing the handshake does is to hand its timestamp over (no XML-RPC, no notification before)"""
        return effects()[0][0] == 'transfer_network_info'

    def post_effect_authorization_carries_the_handshake_timestamp(self):
        return (auth_note(0)[1][0] == NotificationHeaders.AUTHORIZATION.value
                and 'now_monotonic' in auth_note(0)[1][1] and 'authorization' in auth_note(0)[1][1]
                and auth_note(0)[1][1]['now_monotonic'] == effect_at('transfer_network_info', 0)[0]
                if count_effects('push_notification') == 1 and count_effects('transfer_network_info') == 1 else False)

    def post_effect_origin_is_the_peer(self):
        ident = self.supvisors.mapper._instances[self.status.supvisors_id.identifier]
        return (auth_note(0)[0][0] == ident.identifier
                if count_effects('push_notification') == 1 else False)

    def post_effect_admitted_only_when(self):
        return (implies(auth_note(0)[1][1]['authorization'] == AUTHORIZED.value,
                        not seen_isolated_or_unknown(local_seen_by_remote(self))
                        and same_strategies(remote_strategies(self), self.supvisors.options))
                if count_effects('push_notification') == 1 else False)

    def post_effect_snapshot_only_when_authorized(self):
        n = 1 if auth_note(0)[1][1]['authorization'] == AUTHORIZED.value else 0
        return (count_effects('transfer_states_modes') == n and count_effects('transfer_process_info') == n
                if count_effects('push_notification') == 1 else False)
