"""C13 - Isolation is permanent, reciprocal and airtight (non-interference frames of the handlers that receive what a
peer sends; permanence itself is C07: empty ISOLATED row of the transition table, single writer)."""
from pyvc.spec import *

GROUP = 'members'   # contracts of one group use each other's contracts at call sites (pyvc/hooks.py contract_for_call)

from contracts.c07 import valid_structure, distinct_entries, status_pre, setter_frame

ISOLATED = SupvisorsInstanceStates.ISOLATED
CHECKING = SupvisorsInstanceStates.CHECKING


@contract('internal_com.mapper:SupvisorsInstanceId.is_valid', props=[])
class InstanceIdIsValid:
    """ASSUMED external predicate (DESIGN C13.1): does the IPv4 address / port of the sender fit this instance"""
    assumed = True
    raises = ()
    returns = 'bool'
    types = {'ipv4_address': 'Tuple[str, int]'}

    def modifies(self):
        return []


def resolves(mapper, c, x):
    """SupvisorsMapper.filter: entry c resolves to identifier x"""
    return ite(c in mapper._instances, x == c,
               ite(c in mapper._nick_identifiers, x == mapper._nick_identifiers[c],
                   c in mapper.stereotypes and x in mapper.stereotypes[c]))


@contract('context:Context.is_valid', props=['C13'])
class IsValid:
    """statement: 'An instance that the local instance has marked ISOLATED stays so ...: no tick, process event, state
    publication or handshake result coming from it changes any status afterwards' - the origin filter returns no status
    for an ISOLATED origin, for an unknown origin and for an ambiguous one ('messages whose claimed origin does not
    match')."""
    raises = ()
    types = {'ipv4_address': 'Tuple[str, int]'}

    def modifies(self):
        return []

    def pre_valid(self):
        sv = self.supvisors
        return sv.context is self and valid_structure(sv)

    def pre_mapper_closed(self):
        """mapper invariant (add_instance, _assign_stereotypes): nick identifiers and stereotypes only name known
        instances"""
        m = self.supvisors.mapper
        return (forall(str, lambda c: implies(c in m._nick_identifiers, m._nick_identifiers[c] in m._instances))
                and forall(str, str, lambda c, x: implies(c in m.stereotypes and x in m.stereotypes[c],
                                                          x in m._instances)))

    def post_never_an_isolated_status(self, result):
        """(the status returned is one of the context - next clause - so this covers every status it can return)"""
        return forall(str, lambda i: implies(i in self.instances and self.instances[i] is result,
                                             self.instances[i]._state != ISOLATED))

    def post_status_of_the_claimed_origin(self, identifier, nick_identifier, result):
        m = self.supvisors.mapper
        return implies(result is not None,
                       exists(str, lambda x: x in self.instances and self.instances[x] is result
                              and (resolves(m, identifier, x) or resolves(m, nick_identifier, x))))

    def post_unknown_origin(self, identifier, nick_identifier, result):
        m = self.supvisors.mapper
        return implies(not exists(str, lambda x: resolves(m, identifier, x) or resolves(m, nick_identifier, x)),
                       result is None)

    def post_ambiguous_origin(self, identifier, nick_identifier, result):
        m = self.supvisors.mapper
        return implies(exists(str, str, lambda x, y: x != y
                              and (resolves(m, identifier, x) or resolves(m, nick_identifier, x))
                              and (resolves(m, identifier, y) or resolves(m, nick_identifier, y))),
                       result is None)


def auth_state(ctx, status, code):
    """statement: 'a peer that reports the local instance as ISOLATED, or whose ... strategies differ from the local
    ones, is marked ISOLATED instead of being admitted' (NOT_AUTHORIZED, INCONSISTENT, and any unknown code); admitted
    (CHECKED) only when AUTHORIZED; no answer (UNKNOWN) = back to STOPPED; the local instance is never ISOLATED"""
    local = status.supvisors_id.identifier == ctx.supvisors.mapper.local_identifier
    return ite(code == AuthorizationTypes.UNKNOWN.value, SupvisorsInstanceStates.STOPPED,
               ite(code == AuthorizationTypes.AUTHORIZED.value, SupvisorsInstanceStates.CHECKED,
                   ite(local, SupvisorsInstanceStates.STOPPED, ISOLATED)))


@contract('context:Context.on_authorization', props=['C13'])
class OnAuthorization:
    """statement: handshake outcome; 'stale or duplicated handshake notifications' change nothing: the result is only
    taken from a peer in CHECKING state with a timestamp later than the entry in CHECKING."""
    raises = ()

    def modifies(self, status):
        return setter_frame(status)

    def pre_valid(self, status, event):
        return (status.supvisors is self.supvisors and self.supvisors.context is self and status_pre(status)
                and 'authorization' in event and 'now_monotonic' in event)

    def post_stale_is_ignored(self, status, event, old):
        return implies(not (old.status._state == CHECKING and event['now_monotonic'] > old.status.checking_time),
                       status._state == old.status._state and no_effect())

    def post_outcome(self, status, event, old):
        return implies(old.status._state == CHECKING and event['now_monotonic'] > old.status.checking_time,
                       status._state == auth_state(self, old.status, event['authorization']))

    def post_isolated_stays_isolated(self, status, old):
        return implies(old.status._state == ISOLATED, status._state == ISOLATED)


@contract('internal_com.mapper:SupvisorsMapper.identify', props=[])
class MapperIdentify:
    """ASSUMED: stores the network views / stereotypes of the identified instance in the mapper (SupvisorsInstanceId
    views, nodes, stereotypes); touches no instance status"""
    assumed = True
    raises = ()
    effect = 'mapper_identify'

    def modifies(self):
        return [whole('F:remote_view:'), whole('F:local_view:'), whole('F:stereotypes:'), contents(self.nodes),
                contents(self.stereotypes), whole('L.')]


@contract('context:Context.on_identification_event', props=['C13'])
class OnIdentificationEvent:
    """statement: 'no ... handshake result coming from it changes any status afterwards': the network information of a
    peer is only taken into account while it is CHECKING with a fresh timestamp.  The notification is pushed by
    SupervisorProxy._transfer_network_info with network_info = None when the remote answered with a Fault."""
    raises = ()
    types = {'event': 'Optional[Payload]'}

    def pre_valid(self, event):
        sv = self.supvisors
        return (sv.context is self and valid_structure(sv)
                and implies(event is not None, 'identifier' in event and 'now_monotonic' in event
                            and event['identifier'] in self.instances))

    def post_states_untouched(self, old):
        return forall(str, lambda i: implies(i in self.instances,
                                             self.instances[i]._state == old.self.instances[i]._state))

    def post_only_while_checking(self, event, old):
        st = old.self.instances[event['identifier']]
        return implies(not (st._state == CHECKING and event['now_monotonic'] > st.checking_time), no_effect())
