"""C06 - 'a process that already has a start or stop job planned is left to that job', for the commands IN FLIGHT of
ApplicationJobs.on_instances_invalidation.

Decision facet.  The full contract of the function is contracts/c10.py JobsOnInstancesInvalidation (group commander:
frame, exception-freedom, C10 / C03 clauses and the C06 clauses about planned and dropped commands, all proved).  The one
clause that does NOT hold - the process of a command in flight on a SURVIVING instance stays in failed_processes - has
no counter-model small enough for the finite-universe search under the quantified invariants of that contract (left
undecided there).  It is therefore decided here, alone, as a per-iteration clause under trivial loop invariants: loop 0
examines every command in flight on entry; 'its process is out of failed_processes at the end of its iteration' together
with 'nothing is ever added to failed_processes' (proved in c10.py) is the statement clause
'forall c in old current_jobs: c.process not in failed_processes'."""
from pyvc.spec import *

GROUP = 'commander_c06'   # on its own: no call site uses this facet


@contract('commander:ApplicationJobs.on_instances_invalidation', props=['C06'])
class PendingIsLeftToItsJob:
    """C06: 'a process that already has a start or stop job planned is left to that job'; docstring of the function:
    'clear the processes from failed_processes if a corresponding request is pending or planned'."""
    variants = ['ApplicationStartJobs', 'ApplicationStopJobs']
    # exception-freedom (C16) is proved by the full facet (raises = () there); with the trivial invariants of this facet
    # list.remove cannot be shown safe, so ValueError is not this facet's business
    raises = ('ValueError',)

    def loop0_inv(self, k):
        return k >= 0

    def loop0_iter_pending_is_left_to_its_job(self, k, command, failed_processes):
        return command.process not in failed_processes

    def loop1_inv(self, k):
        return k >= 0
