"""Assumed contracts of functions outside the verified code (standard library, Supervisor). Every one used by a
proof is listed in that property's evidence under trusted_base."""
from pyvc.spec import *


@external('time.monotonic')
class TimeMonotonic:
    """fresh real, non-negative; monotonicity along one execution is asserted by the engine between successive calls"""
    returns = 'float'
    params = []

    def post_nonneg(result):
        return result >= 0


@external('time.time')
class TimeTime:
    returns = 'float'
    params = []

    def post_nonneg(result):
        return result >= 0


@external('math.ceil')
class MathCeil:
    """ceil over the reals: the least integer >= x"""
    returns = 'int'
    params = ['x']

    def post_ceil(x, result):
        return result >= x and result - 1 < x


@external('supervisor.states.getProcessStateDescription')
class GetProcessStateDescription:
    returns = 'str'
    params = ['code']


@external('supervisor.rpcinterface.SupervisorNamespaceRPCInterface._interpretProcessInfo')
class InterpretProcessInfo:
    """reads state, start, stop, now, pid, spawnerr, name of the info dict; returns the description string"""
    returns = 'str'
    params = ['rpc_self', 'info']

    def pre_keys(info):
        return ('state' in info and 'start' in info and 'stop' in info and 'now' in info and 'spawnerr' in info)


@external('ast.parse')
class AstParse:
    """returns a Module tree conforming to the ASDL of the running interpreter (contracts/shapes.py ast_model: finite,
    tree-shaped, typed fields) or raises SyntaxError; very deep sources make the 3.12 parser raise RecursionError
    ('not ' * 3000 + '"a"') or MemoryError ('-' * 100000 + '1') instead - observed natively"""
    returns = 'AstModule'
    params = ['source']
    raises = ('SyntaxError', 'RecursionError', 'MemoryError')
@external('supervisor.options.split_namespec')
class SplitNamespec:
    """supervisor.options.split_namespec: 'group:name' -> (group, name), 'group:*' / 'group:' -> (group, None),
    'name' -> (name, name).  Strings are uninterpreted here: only 'a deterministic function of the namespec whose
    second component is None or a non-empty name other than *' is assumed."""
    returns = 'Tuple[str, Optional[str]]'
    params = ['namespec']
    functional = True

    def post_process_name(namespec, result):
        return result[1] is None or (result[1] != '' and result[1] != '*')


@external('traceback.format_exc')
class TracebackFormatExc:
    """text of the exception being handled (only logged)"""
    returns = 'str'
    params = []
