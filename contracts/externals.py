"""Assumed contracts of functions outside the verified code (standard library, Supervisor). Every one used by a
proof is listed in that property's evidence under trusted_base."""
from pyvc.spec import *


@external('time.monotonic')
class TimeMonotonic:
    """fresh real, non-negative; monotonicity along one execution is asserted by the engine between successive calls"""
    returns = 'float'
    params = []

    def post_nonneg(result):
        return result >= 0


@external('time.time')
class TimeTime:
    returns = 'float'
    params = []

    def post_nonneg(result):
        return result >= 0


@external('math.ceil')
class MathCeil:
    """ceil over the reals: the least integer >= x"""
    returns = 'int'
    params = ['x']

    def post_ceil(x, result):
        return result >= x and result - 1 < x


@external('supervisor.states.getProcessStateDescription')
class GetProcessStateDescription:
    returns = 'str'
    params = ['code']


@external('supervisor.rpcinterface.SupervisorNamespaceRPCInterface._interpretProcessInfo')
class InterpretProcessInfo:
    """reads state, start, stop, now, pid, spawnerr, name of the info dict; returns the description string"""
    returns = 'str'
    params = ['rpc_self', 'info']

    def pre_keys(info):
        return ('state' in info and 'start' in info and 'stop' in info and 'now' in info and 'spawnerr' in info)


@external('ast.parse')
class AstParse:
    """returns a Module tree conforming to the ASDL of the running interpreter (contracts/shapes.py ast_model: finite,
    tree-shaped, typed fields) or raises SyntaxError; very deep sources make the 3.12 parser raise RecursionError
    ('not ' * 3000 + '"a"') or MemoryError ('-' * 100000 + '1') instead - observed natively"""
    returns = 'AstModule'
    params = ['source']
    raises = ('SyntaxError', 'RecursionError', 'MemoryError')
@external('supervisor.options.split_namespec')
class SplitNamespec:
    """supervisor.options.split_namespec: 'group:name' -> (group, name), 'group:*' / 'group:' -> (group, None),
    'name' -> (name, name).  Strings are uninterpreted here: only 'a deterministic function of the namespec whose
    second component is None or a non-empty name other than *' is assumed."""
    returns = 'Tuple[str, Optional[str]]'
    params = ['namespec']
    functional = True

    def post_process_name(namespec, result):
        return result[1] is None or (result[1] != '' and result[1] != '*')


@external('traceback.format_exc')
class TracebackFormatExc:
    """text of the exception being handled (only logged)"""
    returns = 'str'
    params = []
# ----------------------------------------------------------------------------------------------------------------------
# C18: string parsers, regular expressions, xml element accessors.  Results are (uninterpreted) functions of the
# arguments: uf('name', type, args...) names that function so that specifications can speak about "the value the text
# parses to" without any model of string contents.  Partial functions raise exactly their documented exceptions.
# ----------------------------------------------------------------------------------------------------------------------
@external('builtins.int')
class BuiltinInt:
    """int(text): the integer the text denotes, ValueError when it denotes none (TypeError for None: precondition)"""
    returns = 'int'
    params = ['x']
    raises = ('ValueError',)

    def pre_not_none(x):
        return x is not None

    def post_value(x, result):
        return uf('int_parses', bool, x) and result == uf('int_value', int, x)

    def exc_ValueError_not_an_int(x, exc):
        return not uf('int_parses', bool, x)


@external('builtins.float')
class BuiltinFloat:
    """float(text): ANY binary64 value the text denotes - 'nan', 'inf', '-inf', '1e999' are accepted by CPython -
    ValueError when it denotes none"""
    returns = 'fp64'
    params = ['x']
    raises = ('ValueError',)

    def pre_not_none(x):
        return x is not None

    def post_value(x, result):
        return uf('float_parses', bool, x) and same(result, uf('float_value', 'fp64', x))

    def exc_ValueError_not_a_float(x, exc):
        return not uf('float_parses', bool, x)


@external('distutils.util.strtobool')
class StrToBool:
    """1 for y/yes/t/true/on/1, 0 for n/no/f/false/off/0 (case-insensitive), ValueError otherwise"""
    returns = 'int'
    params = ['val']
    raises = ('ValueError',)

    def pre_not_none(val):
        return val is not None

    def post_value(val, result):
        return uf('bool_like', bool, val) and result == (1 if uf('bool_value', bool, val) else 0)

    def exc_ValueError_not_boolean_like(val, exc):
        return not uf('bool_like', bool, val)


@external('supervisor.datatypes.integer')
class SupervisorInteger:
    """supervisor.datatypes.integer = int(value) (second attempt through long = int): same partial function"""
    returns = 'int'
    params = ['value']
    raises = ('ValueError',)

    def pre_not_none(value):
        return value is not None

    def post_value(value, result):
        return uf('int_parses', bool, value) and result == uf('int_value', int, value)

    def exc_ValueError_not_an_int(value, exc):
        return not uf('int_parses', bool, value)


@external('supervisor.datatypes.boolean')
class SupervisorBoolean:
    returns = 'bool'
    params = ['s']
    raises = ('ValueError',)

    def post_value(s, result):
        return uf('sup_bool_like', bool, s) and result == uf('sup_bool_value', bool, s)

    def exc_ValueError_not_boolean_like(s, exc):
        return not uf('sup_bool_like', bool, s)


@external('supervisor.datatypes.byte_size')
class SupervisorByteSize:
    returns = 'int'
    params = ['value']
    raises = ('ValueError',)


@external('supervisor.datatypes.list_of_strings')
class SupervisorListOfStrings:
    """[x.strip() for x in arg.split(',')], [] for an empty argument; a new list; ValueError on non-strings"""
    returns = 'List[str]'
    params = ['arg']
    raises = ('ValueError',)
    fresh = True


@external('supervisor.options.split_namespec')
class SplitNamespec:
    """(group, process) of 'group:process'; process is None for 'group:*' and 'group:'; ('name', 'name') without colon"""
    returns = 'Tuple[str, Optional[str]]'
    params = ['namespec']

    def post_value(namespec, result):
        return result[0] == uf('ns_group', str, namespec) and result[1] == uf('ns_process', 'Optional[str]', namespec)


@external('str.upper')
class StrUpper:
    returns = 'str'
    params = ['s']

    def post_value(s, result):
        return result == uf('str_upper', str, s)


@external('re.search')
class ReSearch:
    """None when the pattern matches nowhere in the string, else a Match; re.error when the pattern is not a valid
    regular expression (TypeError for a None string: precondition)"""
    returns = 'Optional[Match]'
    params = ['pattern', 'string']
    raises = ('re.error',)

    def pre_string(pattern, string):
        return string is not None and pattern is not None

    def post_value(pattern, string, result):
        return ((result is not None) == uf('re_search_matches', bool, pattern, string)
                and uf('re_valid', bool, pattern)
                and implies(result is not None, result.pattern == pattern and result.string == string))

    def exc_reerror_invalid_pattern(pattern, string, exc):
        return not uf('re_valid', bool, pattern)


@external('re.match')
class ReMatch:
    """as re.search, anchored at the start (only called with literal, valid patterns by the code under proof)"""
    returns = 'Optional[Match]'
    params = ['pattern', 'string']
    raises = ('re.error',)

    def pre_string(pattern, string):
        return string is not None and pattern is not None

    def post_value(pattern, string, result):
        return ((result is not None) == uf('re_match_matches', bool, pattern, string)
                and uf('re_valid', bool, pattern)
                and implies(result is not None, result.pattern == pattern and result.string == string))

    def exc_reerror_invalid_pattern(pattern, string, exc):
        return not uf('re_valid', bool, pattern)


@external('re.compile')
class ReCompile:
    """a compiled pattern (ghost view: the pattern text); re.error when the text is not a valid regular expression"""
    returns = 'Pattern'
    params = ['pattern']
    raises = ('re.error',)
    fresh = True

    def pre_string(pattern):
        return pattern is not None

    def post_value(pattern, result):
        return result.pattern == pattern and uf('re_valid', bool, pattern)

    def exc_reerror_invalid_pattern(pattern, exc):
        return not uf('re_valid', bool, pattern)


@external('Pattern.match')
class PatternMatch:
    """None when the compiled pattern does not match at the start of the string, else a Match"""
    returns = 'Optional[Match]'
    params = ['p', 'string']

    def pre_string(p, string):
        return string is not None

    def post_value(p, string, result):
        return ((result is not None) == uf('re_match_matches', bool, p.pattern, string)
                and implies(result is not None, result.pattern == p.pattern and result.string == string))


@external('Match.group')
class MatchGroup:
    """text captured by the group (0 = whole match); groups that exist in the pattern and took part in the match
    return a str"""
    returns = 'str'
    params = ['mo', 'index']
    defaults = {'index': 0}

    def post_value(mo, index, result):
        return result == uf('re_group', str, mo.pattern, mo.string, index)


@external('Element.find')
class ElementFind:
    """first sub-element matching the path, None if none: a function of the (immutable) document"""
    returns = 'Optional[Element]'
    params = ['elt', 'path']

    def post_value(elt, path, result):
        return result == uf('xml_find', 'Optional[Element]', elt, path)


@external('Element.findtext')
class ElementFindText:
    """text of the first sub-element matching the path ('' when it has no text), None when there is none"""
    returns = 'Optional[str]'
    params = ['elt', 'path']

    def post_value(elt, path, result):
        return result == uf('xml_text', 'Optional[str]', elt, path)


@external('Element.get')
class ElementGet:
    """value of the attribute, None when absent"""
    returns = 'Optional[str]'
    params = ['elt', 'key']

    def post_value(elt, key, result):
        return result == uf('xml_attr', 'Optional[str]', elt, key)


@external('supervisor.options.make_namespec')
class MakeNamespec:
    """supervisor.options.make_namespec(group, name): the namespec string, a deterministic function of both names"""
    returns = 'str'
    params = ['group_name', 'process_name']
    functional = True
