"""C12 / C13 - acceptance guard of Context.on_process_state_event: REPORT facet (the control-flow facet is
contracts/c12_events.py).  The call-outs ProcessStatus.update_info / force_state (contracts/c11.py, base group) and
ApplicationStatus.update (contracts/c15.py, named in use_contracts) are taken by their PROVED contracts; the read-only
serialisations and the pipe to the statistics collector are abstracted for the call sites of this file only."""
from pyvc.spec import *

GROUP = 'process_report'   # own group: the assumed call-outs below must not be seen by the proofs of any other file

from contracts.c11 import I11, EVENT_KEYS, not_an_entry, mtimes_in_the_past, listing_transition


@contract('statscollector:StatisticsCollectorProcess.send_pid', props=[])
class CollectorSendPid:
    """pipe to the statistics collector process (namespec, pid): touches nothing of the instance"""
    assumed = True
    raises = ()
    effect = 'send_pid'

    def modifies(self):
        return []


@contract('process:ProcessStatus.serial', props=[])
class ProcessStatusSerial:
    """builds the payload published for one process status (dict literal): reads only"""
    assumed = True
    raises = ()
    returns = 'Payload'

    def modifies(self):
        return []


@contract('application:ApplicationStatus.serial', props=[])
class ApplicationStatusSerial:
    """builds the payload published for one application status (dict literal): reads only"""
    assumed = True
    raises = ()
    returns = 'Payload'

    def modifies(self):
        return []


# The guard itself (which sender, which process => which call-outs) is decided on the control-flow facet of
# contracts/c12_events.py, without the quantified invariants.  Here: the accepted event reaches ProcessStatus.update_info
# with the C11 preconditions established (call-pre obligations) and updates the report of the sender.
from contracts.c12_events import (ADMITTED, known_process, the_process, accepted)
from contracts.c15 import loaded, is_expression, structure


def process_valid(ctx, event):
    """object invariant (C11) of the ProcessStatus the event names, reception times in the past, the event payload is
    not one of its stored reports"""
    return implies(known_process(ctx, event),
                   I11(the_process(ctx, event)) and mtimes_in_the_past(the_process(ctx, event))
                   and not_an_entry(the_process(ctx, event), event))


def application_valid(app):
    """what ApplicationStatus.update (contracts/c15.py) needs: loaded rules, structural validity"""
    return (app.rules is not None and loaded(app.rules)
            and implies(app.rules._status_tree is not None, is_expression(app.rules)) and structure(app))


@contract('context:Context.on_process_state_event', props=['C12', 'C13'])
class OnProcessStateEventReport:
    """statement C12: 'every instance reports for every process ... exactly what the Supervisors of the instances it sees
    RUNNING actually report': a plain event about a known process, published by an admitted (CHECKED or RUNNING)
    instance that has reported the process, becomes the last report of THAT instance in the ProcessStatus (state and
    expected flag; the listing then follows C11: listing_transition); the preconditions of ProcessStatus.update_info
    (C11) and ApplicationStatus.update (C15) hold at the call sites."""
    raises = ()
    use_contracts = ['application:ApplicationStatus.update']

    def pre_valid(self, status, event):
        return (status.supvisors is self.supvisors and 'group' in event and 'name' in event
                and process_valid(self, event))

    def pre_application(self, event):
        """preconditions of ApplicationStatus.update (C15) for the application of the event"""
        return implies(event['group'] in self.applications, application_valid(self.applications[event['group']]))

    def pre_event(self, event):
        """payloads built by SupervisorListener.on_process_state (Supervisor event: real process name) and
        SupervisorListener.force_process_state ('forced' added, name of an existing ProcessStatus)"""
        return (event['name'] != '*' and all(k in event for k in EVENT_KEYS) and 'identifier' in event)

    def post_report_when_admitted(self, status, old):
        ident = status.supvisors_id.identifier
        p = the_process(self, old.event)
        return implies(accepted(old.self, old.status, old.event),
                       p is the_process(old.self, old.event)
                       and p.info_map[ident]['state'] == old.event['state']
                       and p.info_map[ident]['expected'] == old.event['expected'])

    def post_listing_when_admitted(self, status, old):
        ident = status.supvisors_id.identifier
        p = the_process(self, old.event)
        return implies(accepted(old.self, old.status, old.event),
                       listing_transition(p, at(old, p), ident, old.event['state']))
