"""C04 / C14 - pending-load accounting of the Starter: ApplicationStartJobs.get_load_requests (VERIFIED).

C04: 'whose node load - the expected_loading of everything running on that node plus the starts already requested there -
stays at or below 100'; C14: 'loads include starts already requested'.  The value of the result is a sum with
multiplicities over a concatenation of symbolic lists, which the engine does not unfold; proved instead is a decidable
NECESSARY condition of 'result[i] = sum of expected_load of the pending commands targeting i':
  (a) domain: i is a key  iff  some command of current_jobs OR OF ANY GROUP of planned_jobs has the non-empty target i
      and a stopped process - no other filter (post_domain_current / _planned: every such command is counted;
      post_domain_only: nothing else is - a command whose process is not stopped is counted by the instance load);
  (b) lower bound: result[c.identifier] >= c.process.rules.expected_load for every such command c (loads >= 0).
Not decided here: the exact sum (`max` instead of `sum` satisfies (a) and (b)), see pyvc/propdefs.py.
The call-site facet (fresh map, keys identified) is contracts/c04.py GetLoadRequests."""
from pyvc.spec import *

GROUP = 'strategy'
from contracts.c04 import *


@contract('commander:ApplicationStartJobs.get_load_requests', props=['C04', 'C14'])
class GetLoadRequestsAccounting:
    """C04: 'plus the starts already requested there', C14: 'loads include starts already requested'; docstring: 'Extract by
    Supvisors instance the processes that are planned to start but still stopped and sum their expected load'."""
    raises = ()
    types = {'load_request_map': 'Dict[str, List[int]]'}

    def modifies(self):
        return []

    def pre_loads_not_negative(self):
        return loads_not_negative(self)

    def post_domain_current(self, result):
        return forall(self.current_jobs, lambda c: implies(pending(c), c.identifier in result))

    def post_domain_planned(self, result):
        return forall(self.planned_jobs, lambda s: forall(self.planned_jobs[s], lambda c: implies(pending(c), c.identifier in result)))

    def post_domain_only(self, result):
        return forall(result, lambda i: (
            exists(self.current_jobs, lambda c: pending_on(c, i))
            or exists(self.planned_jobs, lambda s: exists(self.planned_jobs[s], lambda c: pending_on(c, i)))))

    def post_at_least_each_current(self, result):
        return forall(self.current_jobs, lambda c: implies(pending(c), result[c.identifier] >= c.process.rules.expected_load))

    def post_at_least_each_planned(self, result):
        return forall(self.planned_jobs, lambda s: forall(self.planned_jobs[s], lambda c: implies(
            pending(c), result[c.identifier] >= c.process.rules.expected_load)))

    def post_fresh(self, result):
        return was_fresh(result)

    def loop0_inv(self, k, seq, load_request_map):
        return (was_fresh(load_request_map)
                and forall(load_request_map, lambda i: was_fresh(load_request_map[i]) and is_alloc(load_request_map[i]) and load_request_map[i] is not seq)
                and forall(str, lambda i: (i in load_request_map) == exists(int, lambda j: 0 <= j and j < k and pending_on(seq[j], i)))
                and forall(load_request_map, load_request_map, lambda a, b: implies(a != b, load_request_map[a] is not load_request_map[b]))
                and forall(load_request_map, lambda i: forall(load_request_map[i], lambda x: x >= 0))
                and forall(int, lambda j: implies(0 <= j and j < k and pending(seq[j]),
                                                  seq[j].process.rules.expected_load in load_request_map[seq[j].identifier])))

    def loop0_modifies(self, load_request_map, seq):
        return [contents(load_request_map), contents_where(lambda r: was_fresh(r) and r is not seq, 'list')]
