#!/bin/sh
# usage: mut1.sh <file-under-supvisors> <sed-expr> <targets...>   (scratch mutant run, dev helper)
f=$1; e=$2; shift 2
rm -rf /tmp/mut/supvisors; mkdir -p /tmp/mut; cp -r /repo/supvisors /tmp/mut/
sed -i "$e" /tmp/mut/supvisors/$f
if diff -q /repo/supvisors/$f /tmp/mut/supvisors/$f >/dev/null; then echo "MUTATION DID NOT APPLY"; exit 2; fi
VERIF_REPO=/tmp/mut /verif/.venv312/bin/python /verif/run1.py "$@" | grep -v "^   inlined"
