"""usage: struct1.py <PROP>  - run only the structural obligations (pyvc/structural_cNN.py) of a property and print the
non-discharged ones (-v: all).  With VERIF_REPO=<dir> it scans a mutated copy (see tools/mut1.sh: target STRUCT:<PROP>)."""
import os, sys
sys.path.insert(0, os.path.dirname(os.path.dirname(os.path.abspath(__file__))))
from pyvc.verify import World
from pyvc import props
w = World()
out = props.run_extra(sys.argv[1], w, 'quick')
print(f'== structural {sys.argv[1]} obligations={len(out["obligations"])}')
for o in out['obligations']:
    if o['verdict'] != 'discharged' or '-v' in sys.argv:
        print('  ', o['verdict'], o['name'], o['detail'])
