"""Regenerates the generated blocks of DESIGN.md §7 (between <!-- BEGIN:name --> / <!-- END:name --> markers) from the
evidence files, the findings files and seeded/TABLE.json.  python tools/design_fill.py"""
import glob
import io
import json
import os
import re
import sys
from contextlib import redirect_stdout

VERIF = os.path.dirname(os.path.dirname(os.path.abspath(__file__)))
sys.path.insert(0, os.path.join(VERIF, 'tools'))
sys.path.insert(0, VERIF)
import design_tables  # noqa


def findings_block():
    from pyvc.driver import load_findings
    f = load_findings()
    out = []
    seen = set()
    for x in sorted(f['findings'], key=lambda x: (x['id'].split('-')[0], x['id'])):
        key = re.sub(r'^C\d\d-', '', x['id'])
        first = x['summary'].split(' (DESIGN')[0]
        first = first if len(first) < 420 else first[:417] + '...'
        out.append(f"* `{x['id']}` ({x['property']}; `{x['function'].split(':')[-1]}`; obligation `{x['obligation']}`"
                   + (f"; demo `{x['demo']}`" if x.get('demo') else '') + f") — {first}")
        seen.add(key)
    return '\n'.join(out)


def results_block():
    buf = io.StringIO()
    with redirect_stdout(buf):
        design_tables.main()
    txt = buf.getvalue()
    return txt[:txt.index('| seed |')] if '| seed |' in txt else txt


def seeds_block():
    buf = io.StringIO()
    with redirect_stdout(buf):
        design_tables.main()
    txt = buf.getvalue()
    return txt[txt.index('| seed |'):] if '| seed |' in txt else ''


def main():
    p = os.path.join(VERIF, 'DESIGN.md')
    s = open(p).read()
    for name, fn in (('FINDINGS', findings_block), ('RESULTS', results_block), ('SEEDS', seeds_block)):
        body = fn().rstrip() + '\n'
        ph = name + '_PLACEHOLDER'
        blk = f'<!-- BEGIN:{name} -->\n{body}<!-- END:{name} -->'
        if ph in s:
            s = s.replace(ph, blk)
        else:
            s = re.sub(rf'<!-- BEGIN:{name} -->.*?<!-- END:{name} -->', lambda m: blk, s, flags=re.S)
    open(p, 'w').write(s)


if __name__ == '__main__':
    main()
