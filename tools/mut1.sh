#!/bin/sh
# usage: mut1.sh <file-under-supvisors> <sed-expr> <targets...>   (scratch mutant run, dev helper)
f=$1; e=$2; shift 2
HERE="$(cd "$(dirname "$0")/.." && pwd)"
M=$(mktemp -d /tmp/mut.XXXXXX)
cp -r /repo/supvisors $M/
sed -i "$e" $M/supvisors/$f
if diff -q /repo/supvisors/$f $M/supvisors/$f >/dev/null; then echo "MUTATION DID NOT APPLY"; rm -rf $M; exit 2; fi
VERIF_REPO=$M timeout ${MUT_TIMEOUT:-900} /verif/.venv312/bin/python $HERE/tools/run1.py "$@" | grep -v "^   inlined"
rm -rf $M
