#!/bin/sh
# usage: mut1.sh <file-under-supvisors> <sed-expr> <targets...>   (scratch mutant run, dev helper)
# a target of the form STRUCT:<PROP> runs the structural obligations of the property on the mutant
f=$1; e=$2; shift 2
HERE="$(cd "$(dirname "$0")/.." && pwd)"
M=$(mktemp -d /tmp/mut.XXXXXX)
cp -r /repo/supvisors $M/
sed -i "$e" $M/supvisors/$f
if diff -q /repo/supvisors/$f $M/supvisors/$f >/dev/null; then echo "MUTATION DID NOT APPLY"; rm -rf $M; exit 2; fi
FN=""; for t in "$@"; do case "$t" in STRUCT:*) VERIF_REPO=$M timeout ${MUT_TIMEOUT:-900} /verif/.venv312/bin/python $HERE/tools/struct1.py "${t#STRUCT:}";; *) FN="$FN $t";; esac; done
if [ -n "$FN" ]; then VERIF_REPO=$M timeout ${MUT_TIMEOUT:-900} /verif/.venv312/bin/python $HERE/tools/run1.py $FN | grep -v "^   inlined"; fi
rm -rf $M
