"""Seed-vs-check table: every seeded change (seeded/<id>) is applied to a scratch copy of /repo/supvisors and checked with
its own property plus every property whose proofs execute a function the seed touches (under contract or inlined as a
callee: read from the evidence files; C16 only for its own seeds: it aggregates the safe: obligations of the others).  Writes seeded/TABLE.json (used for DESIGN.md and to
fill `caught_by` in the meta files with --write-meta).   python tools/seed_table.py [-j N] [--write-meta] [ids...]"""
import glob
import json
import os
import sys
from concurrent.futures import ThreadPoolExecutor

VERIF = os.path.dirname(os.path.dirname(os.path.abspath(__file__)))
sys.path.insert(0, VERIF)
from pyvc import seeded  # noqa


def files_by_property():
    out = {}
    for f in glob.glob(os.path.join(VERIF, 'evidence', 'C*.json')):
        d = json.load(open(f))
        fs = set()
        for fn in d['coverage'].get('functions_under_contract', []):
            p = fn.get('file', '')
            if '/supvisors/' in p:
                fs.add('supvisors/' + p.split('/supvisors/', 1)[1])
        out[d['property_id']] = fs
    return out


def touched_functions(seed):
    """qualified names (module:Class.func) of the functions of the CURRENT /repo source that the seed's patch touches"""
    import re
    import subprocess
    from pyvc.selftest import enclosing
    out = set()
    txt = open(os.path.join(seed['dir'], 'patch.diff')).read()
    cur = None
    for ln in txt.splitlines():
        m = re.match(r'^\+\+\+ b/(supvisors/\S+)', ln)
        if m:
            cur = m.group(1)
            continue
        m = re.match(r'^@@ -(\d+)(?:,(\d+))? ', ln)
        if m and cur:
            a, n = int(m.group(1)), int(m.group(2) or 1)
            src = open(os.path.join('/repo', cur)).read()
            mod = cur[len('supvisors/'):-3].replace('/', '.')
            # the changed lines sit in the middle of the hunk (3 lines of context on each side)
            for line in range(a + 2, a + max(n - 2, 3)):
                q = enclosing(src, line)
                if q != '<module>':
                    out.add(f'{mod}:{q}')
    return out


def functions_by_property():
    out = {}
    for f in glob.glob(os.path.join(VERIF, 'evidence', 'C*.json')):
        d = json.load(open(f))
        fs = set()
        for fn in d['coverage'].get('functions_under_contract', []):
            fs.add(fn['function'].split('[')[0])
            for c in fn.get('callees_inlined(real code)', []):
                fs.add(c.split('[')[0])
        out[d['property_id']] = fs
    return out


def main():
    args = sys.argv[1:]
    jobs = 3
    if '-j' in args:
        i = args.index('-j')
        jobs = int(args[i + 1])
        del args[i:i + 2]
    write_meta = '--write-meta' in args
    args = [a for a in args if not a.startswith('--')]
    fbp = files_by_property()
    fnbp = functions_by_property()
    work = []
    for s in seeded.seeds():
        if args and s['id'] not in args:
            continue
        props = [s['property']]
        tf = touched_functions(s)
        for p, fs in sorted(fnbp.items()):
            if p != 'C16' and p not in props and fs & tf:
                props.append(p)
        for p in props:
            work.append((s, p))
    tpath = os.path.join(VERIF, 'seeded', 'TABLE.json')
    table = json.load(open(tpath)) if os.path.exists(tpath) and args else {}

    def one(sp):
        s, p = sp
        r = seeded.run_check_on(s, p, timeout=2400)
        print(f"{s['id']:8s} {p} exit={r['exit']} violations={len(r['violations'])} "
              f"{(r['violations'] or [r['tail'].splitlines()[-1] if r['tail'] else ''])[0][:170]}", flush=True)
        return s['id'], p, r

    with ThreadPoolExecutor(jobs) as ex:
        for sid, p, r in ex.map(one, work):
            table.setdefault(sid, {})[p] = {'exit': r['exit'], 'violations': [v[:300] for v in r['violations']],
                                           'tail': r['tail'][-300:] if r['exit'] not in (0, 1) else ''}
    json.dump(table, open(tpath, 'w'), indent=1, sort_keys=True)
    if write_meta:
        for s in seeded.seeds():
            if s['id'] not in table:
                continue
            mp = os.path.join(s['dir'], 'meta.json')
            m = json.load(open(mp))
            m['caught_by'] = sorted(p for p, r in table[s['id']].items() if r['exit'] == 1 and r['violations'])
            m['checked_with'] = sorted(table[s['id']])
            json.dump(m, open(mp, 'w'), indent=1)
    print('TABLEDONE')


if __name__ == '__main__':
    main()
