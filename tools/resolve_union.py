"""resolve git conflict markers by keeping BOTH sides (ours first) - for append-at-end conflicts only"""
import sys, re
for p in sys.argv[1:]:
    s = open(p).read()
    out, i = [], 0
    pat = re.compile(r'<<<<<<< [^\n]*\n(.*?)=======\n(.*?)>>>>>>> [^\n]*\n', re.S)
    s2 = pat.sub(lambda m: m.group(1) + m.group(2), s)
    open(p, 'w').write(s2)
    print(p, 'resolved', len(pat.findall(s)))
