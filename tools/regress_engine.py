"""Engine regression on toy functions: tools/regress_engine.py [name ...]   (default: every docs/regress/<name>.py)

docs/regress/<name>.py is copied into a scratch copy of the repository as supvisors/zz_<name>.py and verified against
docs/regress/<name>_contracts.py (not loaded by ./check).  A contract's `expect = ('post_x', ...)` names the clauses that
must be REFUTED (a counter-model is found); every other obligation must be discharged.  Exit 0 iff all as expected."""
import glob, os, shutil, sys, tempfile
HERE = os.path.dirname(os.path.dirname(os.path.abspath(__file__)))
sys.path.insert(0, HERE)
names = sys.argv[1:] or sorted(os.path.basename(p)[:-3] for p in glob.glob(os.path.join(HERE, 'docs/regress/*.py'))
                               if not p.endswith('_contracts.py'))
tmp = tempfile.mkdtemp(prefix='pyvc_regress_')
bad = 0
try:
    shutil.copytree(os.path.join(os.environ.get('VERIF_REPO', '/repo'), 'supvisors'), os.path.join(tmp, 'supvisors'),
                    ignore=shutil.ignore_patterns('__pycache__', 'tests', 'web', 'client', 'ui', 'test'))
    for n in names:
        shutil.copy(os.path.join(HERE, 'docs/regress', n + '.py'), os.path.join(tmp, 'supvisors', f'zz_{n}.py'))
    os.environ['VERIF_REPO'] = tmp
    from pyvc.verify import World, verify_function, load_contract_module
    w = World(tmp)
    for n in names:
        load_contract_module(w.ct, w.reg, os.path.join(HERE, 'docs/regress', n + '_contracts.py'), f'regress.{n}')
    for con in [c for c in w.reg.all_contracts() if c.module.startswith('regress.')]:
        expect = tuple(con.attrs.get('expect', ()))
        r = verify_function(w, con, None)
        problems = [r.error.splitlines()[0]] if r.error else []
        refuted = set()
        for o in r.obligations:
            clause = o.name.split(':', 1)[1].split('/')[0] if o.name.startswith('post:') else None
            if clause in expect:
                if o.verdict == 'refuted':
                    refuted.add(clause)
                elif o.verdict != 'discharged':
                    problems.append(f'{o.name}: {o.verdict} (expected refuted)')
            elif o.verdict != 'discharged':
                problems.append(f'{o.name}: {o.verdict} (expected discharged)')
        problems += [f'{c}: never refuted' for c in expect if c not in refuted]
        print(f"{'ok  ' if not problems else 'FAIL'} {con.cid} obligations={len(r.obligations)} time={r.seconds:.1f}s " + '; '.join(problems))
        bad += bool(problems)
finally:
    shutil.rmtree(tmp, ignore_errors=True)
sys.exit(1 if bad else 0)
