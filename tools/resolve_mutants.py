"""merge helper: in a conflicted mutants/CNN.txt keep OURS (re-anchored lines) and add THEIR lines that are not
line-number addressed (the line-numbered ones are the old form of lines OURS already holds re-anchored)"""
import re, sys
for p in sys.argv[1:]:
    out, ours, theirs, mode = [], [], [], None
    nnum = 0
    for l in open(p).read().splitlines():
        if l.startswith('<<<<<<< '):
            mode, ours, theirs = 'o', [], []
        elif l.startswith('=======') and mode == 'o':
            mode = 't'
        elif l.startswith('>>>>>>> ') and mode == 't':
            mode = None
            out.extend(ours)
            at = sum(1 for x in ours if '|AT ' in x)
            num = [x for x in theirs if re.match(r'^[\w/]+\.py\|\d+(,\d+)?[sd]', x)]
            nnum += len(num)
            if len(num) != at:
                print(f'{p}: WARNING {len(num)} line-numbered lines in theirs vs {at} anchored lines in ours')
            out.extend(x for x in theirs if x not in num and x not in ours)
        elif mode == 'o':
            ours.append(l)
        elif mode == 't':
            theirs.append(l)
        else:
            out.append(l)
    open(p, 'w').write('\n'.join(out) + '\n')
    print(p, 'resolved; dropped', nnum, 'line-numbered duplicates')
