"""Maintenance tool (run by hand, never by a check): gathers the per-property finding files findings/*.json written during
the build into the single committed file known_findings.json ('findings' = recorded, not repaired; 'fixed' = repaired by a
fix: commit, suppress nothing) and removes them; the native demos stay under findings/."""
import glob
import json
import os

V = os.path.dirname(os.path.dirname(os.path.abspath(__file__)))
p = os.path.join(V, 'known_findings.json')
kf = json.load(open(p))
seen_f = {json.dumps(x, sort_keys=True) for x in kf['findings']}
seen_x = set(kf['fixed'])
for f in sorted(glob.glob(os.path.join(V, 'findings', '*.json'))):
    d = json.load(open(f))
    for x in d.get('findings', []):
        k = json.dumps(x, sort_keys=True)
        if k not in seen_f:
            seen_f.add(k)
            kf['findings'].append(x)
    for x in d.get('fixed', []):
        if x not in seen_x:
            seen_x.add(x)
            kf['fixed'].append(x)
    os.unlink(f)
kf['findings'].sort(key=lambda x: (x['property'], x['id']))
kf['fixed'].sort()
json.dump(kf, open(p, 'w'), indent=1)
print(len(kf['findings']), 'findings,', len(kf['fixed']), 'fixed')
