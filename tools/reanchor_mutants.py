"""One-off maintenance tool: rewrite the line-number addressed sed mutants of mutants/CNN.txt (`123s/a/b/`, `12,14d`)
into function-anchored ones that survive edits elsewhere in the file:

    AT <Class.method | func | <module>> :: <stripped text of the line>[ #k] [;; <stripped text of the last line>] :: <sed command without address>

pyvc/selftest.py resolves the anchor in the CURRENT source (ast) to a line number and hands `<N>[,<M>]<cmd>` to sed.
The line numbers are looked up in the version of the file where the mutant applied (HEAD, else older commits)."""
import ast
import glob
import os
import re
import subprocess
import sys
import tempfile

VERIF = os.path.dirname(os.path.dirname(os.path.abspath(__file__)))
sys.path.insert(0, VERIF)
from pyvc.selftest import enclosing, resolve_anchor  # noqa

REPO = '/repo'


def versions(f):
    # the mutants were written against the tree as of commit 8645aca (pinned snapshot + the two first fix: commits)
    out = []
    p0 = subprocess.run(['git', '-C', REPO, 'show', f'8645aca:supvisors/{f}'], capture_output=True, text=True)
    if p0.returncode == 0:
        out.append(p0.stdout)
    cur = open(os.path.join(REPO, 'supvisors', f)).read()
    if cur not in out:
        out.append(cur)
    revs = subprocess.run(['git', '-C', REPO, 'log', '-n', '8', '--format=%H', '--', 'supvisors/' + f], capture_output=True, text=True).stdout.split()
    for r in revs:
        for rr in (r, r + '^'):
            p = subprocess.run(['git', '-C', REPO, 'show', f'{rr}:supvisors/{f}'], capture_output=True, text=True)
            if p.returncode == 0 and p.stdout not in out:
                out.append(p.stdout)
    return out


def apply_sed(text, sed):
    with tempfile.NamedTemporaryFile('w', suffix='.py', delete=False) as t:
        t.write(text)
    try:
        subprocess.run(['sed', '-i', sed, t.name], check=True, capture_output=True)
        return open(t.name).read()
    finally:
        os.unlink(t.name)


def main():
    for mf in sorted(glob.glob(os.path.join(VERIF, 'mutants', 'C*.txt'))):
        out, changed = [], 0
        for ln in open(mf).read().splitlines():
            parts = ln.split('|')
            if not ln.strip() or ln.startswith('#') or len(parts) < 4:
                out.append(ln)
                continue
            f, sed = parts[0].strip(), '|'.join(parts[1:-2]).strip()
            m = re.match(r'^(\d+)(?:,(\d+))?([sd])(.*)$', sed)
            if not m:
                out.append(ln)
                continue
            a, b, cmd, rest = int(m.group(1)), int(m.group(2) or m.group(1)), m.group(3), m.group(4)
            new = None
            for text in versions(f):
                after = apply_sed(text, sed)
                if after == text:
                    continue
                lines = text.splitlines()
                if cmd == 'd':
                    la, lb = a, b
                else:
                    al = after.splitlines()
                    diff = [i + 1 for i in range(min(len(lines), len(al))) if lines[i] != al[i]]
                    if len(al) != len(lines) or not diff:
                        break
                    la = lb = diff[0]
                    if len(diff) > 1:
                        la, lb = diff[0], diff[-1]
                qn = enclosing(text, la)
                t1, k1 = anchor_of(text, qn, la)
                spec = f'{t1}' + (f' #{k1}' if k1 else '')
                if lb != la:
                    t2, k2 = anchor_of(text, qn, lb)
                    spec += f' ;; {t2}' + (f' #{k2}' if k2 else '')
                new = f'AT {qn} :: {spec} :: {cmd}{rest}'
                break
            if new is None:
                print('UNRESOLVED (applies to no known version):', os.path.basename(mf), ln[:120])
                out.append(ln)
                continue
            cur = open(os.path.join(REPO, 'supvisors', f)).read()
            r = resolve_anchor(cur, new)
            if r is None or apply_sed(cur, r) == cur:
                print('STALE (anchor not found / no change in the current source):', os.path.basename(mf), new[:160])
            out.append('|'.join([parts[0], new] + parts[-2:]))
            changed += 1
        open(mf, 'w').write('\n'.join(out) + '\n')
        print(os.path.basename(mf), 'rewritten', changed)


def anchor_of(text, qn, line):
    """(stripped text, occurrence index among equal stripped lines of the function)"""
    from pyvc.selftest import func_lines
    lines = text.splitlines()
    t = lines[line - 1].strip()
    same = [i for i in func_lines(text, qn) if lines[i - 1].strip() == t]
    return t, same.index(line)


if __name__ == '__main__':
    main()
