"""Markdown tables for DESIGN.md from the evidence files, the findings files and seeded/TABLE.json (print to stdout)."""
import glob
import json
import os

VERIF = os.path.dirname(os.path.dirname(os.path.abspath(__file__)))


def ev(p):
    f = os.path.join(VERIF, 'evidence', p + '.json')
    return json.load(open(f)) if os.path.exists(f) else None


def main():
    props = [f'C{i:02d}' for i in range(1, 21)]
    man = {c['property_id']: c for c in json.load(open(os.path.join(VERIF, 'MANIFEST.json')))['checks']}
    print('| id | level | functions (variants) | obligations | discharged | bounded stand-ins | known findings | paths | solver s | wall s |')
    print('|----|-------|---------------------|-------------|------------|-------------------|----------------|-------|----------|--------|')
    for p in props:
        d = ev(p)
        if d is None:
            continue
        c = d['coverage']
        fu = c.get('functions_under_contract', [])
        nf = len({f['function'] for f in fu})
        print(f"| {p} | {d['level']} | {nf} ({len(fu)}) | {c['obligations']} | {c['discharged']} | "
              f"{c['bounded_checks']['count']} | {c.get('refuted_known_findings', 0)} | {c.get('paths', '')} | "
              f"{c.get('solver_seconds', '')} | {d['wall_s']} |")
    print()
    for p in props:
        d = ev(p)
        if d is None:
            continue
        c = d['coverage']
        print(f'**{p}** — functions under contract: ' + ', '.join(sorted({"`" + f["function"].split(":")[1] + "`" for f in c.get("functions_under_contract", [])})) + '.')
        be = c.get('backends', {})
        print('  Back ends: ' + '; '.join(f"{k} {v['count']}" for k, v in be.items()) + '.')
        if c.get('structural_checks'):
            print('  Structural scans: ' + '; '.join(x if isinstance(x, str) else str(x.get('name', x)) for x in c['structural_checks']) + '.')
        nd = c.get('not_decided') or []
        if nd:
            print('  Not decided: ' + ' / '.join(nd))
        print()
    tp = os.path.join(VERIF, 'seeded', 'TABLE.json')
    if os.path.exists(tp):
        t = json.load(open(tp))
        print('| seed | file | checked with | caught by (VIOLATION line) | first failing obligation |')
        print('|------|------|--------------|----------------------------|--------------------------|')
        for sid in sorted(t):
            m = json.load(open(os.path.join(VERIF, 'seeded', sid, 'meta.json')))
            caught = [p for p, r in sorted(t[sid].items()) if r['exit'] == 1 and r['violations']]
            first = ''
            if caught:
                v = t[sid][caught[0]]['violations'][0]
                first = v.split('replay=')[1].split(' ')[0].split('/')[-1][:90] + (' (no-failing-input-found)' if 'no-failing-input-found' in v else ' (replayed)')
            print(f"| {sid} | {', '.join(x.split('/')[-1] for x in m.get('files', []))} | {' '.join(sorted(t[sid]))} | {' '.join(caught) or '**missed**'} | {first} |")


if __name__ == '__main__':
    main()
