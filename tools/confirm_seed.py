"""Confirm a seeded change independently: demo passes on the unchanged tree, fails with the patch, and the baseline
test-suite (the stable_pass list of /root/.vp/BASELINE.json) still passes with the patch.
usage: confirm_seed.py <seed out dir> [--no-suite]   -> /tmp/confirm/results/<id>.json"""
import json, os, shlex, subprocess, sys, xml.etree.ElementTree as ET

src = sys.argv[1].rstrip('/')
sid = os.path.basename(src)
wt = f'/tmp/confirm/wt_{sid}'
res = {'id': sid, 'src': src}
meta = json.load(open(os.path.join(src, 'meta.json')))
res['property'] = meta.get('property')
subprocess.run(['git', '-C', '/repo', 'worktree', 'remove', '--force', wt], capture_output=True)
subprocess.run(['git', '-C', '/repo', 'worktree', 'add', '--detach', wt, 'HEAD'], check=True, capture_output=True)
try:
    demo = 'demo.py' if os.path.exists(os.path.join(src, 'demo.py')) else 'test_demo.py'
    subprocess.run(['cp', os.path.join(src, demo), wt], check=True)
    cmd = ['/venv/bin/python', '-W', 'ignore', demo] if demo == 'demo.py' else ['/venv/bin/python', '-m', 'pytest', '-q', '-p', 'no:cacheprovider', demo]
    env = dict(os.environ, PYTHONPATH=wt)
    r0 = subprocess.run(cmd, cwd=wt, env=env, capture_output=True, text=True, timeout=300)
    res['demo_unchanged_exit'] = r0.returncode
    p = subprocess.run(['git', '-C', wt, 'apply', os.path.join(src, 'patch.diff')], capture_output=True, text=True)
    res['patch_applies'] = p.returncode == 0
    if p.returncode != 0:
        res['patch_error'] = p.stderr[-300:]
    r1 = subprocess.run(cmd, cwd=wt, env=env, capture_output=True, text=True, timeout=300)
    res['demo_changed_exit'] = r1.returncode
    res['demo_changed_tail'] = (r1.stdout + r1.stderr)[-300:]
    res['compiles'] = subprocess.run(['/venv/bin/python', '-m', 'compileall', '-q', 'supvisors'], cwd=wt, capture_output=True).returncode == 0
    if '--no-suite' not in sys.argv:
        xml = f'/tmp/confirm/results/{sid}.junit.xml'
        subprocess.run(['/venv/bin/python', '-m', 'pytest', '-q', '-p', 'no:cacheprovider', '--timeout=900', '--continue-on-collection-errors',
                        f'--junitxml={xml}', '--deselect', demo], cwd=wt, env=env, capture_output=True, text=True, timeout=2400)
        passed = set()
        for tc in ET.parse(xml).getroot().iter('testcase'):
            if not any(ch.tag in ('failure', 'error', 'skipped') for ch in tc):
                passed.add(f"{tc.get('classname')}::{tc.get('name')}")
        base = json.load(open('/root/.vp/BASELINE.json'))['stable_pass']
        missing = [t for t in base if t not in passed]
        # network tests (fixed ports) fail when another suite runs at the same time: retry the failing ones alone
        for attempt in range(3):
            if not missing:
                break
            import time
            time.sleep(5 + 10 * attempt)
            ids = [t.replace('supvisors.tests.', 'supvisors/tests/').replace('::', '.py::', 1) for t in missing]
            xml2 = xml + '.retry'
            subprocess.run(['/venv/bin/python', '-m', 'pytest', '-q', '-p', 'no:cacheprovider', '--timeout=900', f'--junitxml={xml2}'] + ids,
                           cwd=wt, env=env, capture_output=True, text=True, timeout=1200)
            try:
                for tc in ET.parse(xml2).getroot().iter('testcase'):
                    if not any(ch.tag in ('failure', 'error', 'skipped') for ch in tc):
                        passed.add(f"{tc.get('classname')}::{tc.get('name')}")
                os.unlink(xml2)
            except Exception:
                pass
            missing = [t for t in base if t not in passed]
        res['baseline_tests'] = len(base)
        res['baseline_failing_with_patch'] = missing[:20]
        os.unlink(xml)
    res['confirmed'] = bool(res['demo_unchanged_exit'] == 0 and res['patch_applies'] and res['demo_changed_exit'] != 0 and res['compiles']
                            and not res.get('baseline_failing_with_patch'))
finally:
    subprocess.run(['git', '-C', '/repo', 'worktree', 'remove', '--force', wt], capture_output=True)
json.dump(res, open(f'/tmp/confirm/results/{sid}.json', 'w'), indent=1)
print(sid, 'confirmed' if res.get('confirmed') else 'NOT CONFIRMED', {k: v for k, v in res.items() if k in ('demo_unchanged_exit', 'demo_changed_exit', 'baseline_failing_with_patch')})
