import os, sys, time
sys.path.insert(0, os.path.dirname(os.path.dirname(os.path.abspath(__file__))))
from pyvc.verify import World, verify_function
w = World()
targets = [a for a in sys.argv[1:] if not a.startswith("-")]
from pyvc.verify import verify_lemma
for t in targets:
    lem = [x for x in w.reg.lemmas if f'{x[0]}:{x[1].name}' == t or x[1].name == t]
    if lem:
        r = verify_lemma(w, *lem[0])
        print(f'== lemma {t} obligations={len(r.obligations)} time={r.seconds:.2f}s vac={r.vacuity}')
        if r.error: print('   ERROR', r.error)
        for o in r.obligations:
            if o.verdict != 'discharged' or '-v' in sys.argv: print('  ', o.verdict, o.name, o.backend, o.detail, o.model or '')
        continue
    for con in [c for c in w.reg.facets[t] if not c.assumed] or w.reg.facets[t][:1]:
      for variant in con.all_variants():
        r = verify_function(w, con, variant)
        print(f'== {t} <{con.cid}> [{variant}] paths={r.paths} (normal {r.normal_paths}, exc {r.exc_paths}) obligations={len(r.obligations)} '
              f'time={r.seconds:.2f}s solver={r.solver_seconds:.2f}s queries={r.queries} vac={r.vacuity}')
        if r.error: print('   ERROR', r.error if '-t' in sys.argv else '\n'.join(r.error.splitlines()[:1] + r.error.splitlines()[-6:]))
        for o in r.obligations:
            if o.verdict != 'discharged' or '-v' in sys.argv: print('  ', o.verdict, o.name, o.backend, o.detail, o.model or '')
        print('   inlined', sorted(r.inlined), 'by contract', sorted(r.by_contract), 'ext', sorted(r.externals))
