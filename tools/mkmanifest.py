"""Regenerates MANIFEST.json from pyvc/propdefs.py: a property is claimed iff it is registered there AND listed in
CLAIMED below (kept by hand: only properties whose ./check exits 0 on the unchanged tree)."""
import json, os, sys
V = os.path.dirname(os.path.dirname(os.path.abspath(__file__)))
sys.path.insert(0, V)
from pyvc.props import PROPS

CLAIMED = json.load(open(os.path.join(V, 'tools', 'claimed.json')))
ids = [json.loads(l)['id'] for l in open(os.path.join(V, 'properties.jsonl'))]
checks, na = [], []
for pid in ids:
    if pid in CLAIMED and pid in PROPS:
        c = CLAIMED[pid]
        p = PROPS[pid]
        checks.append({
            'property_id': pid,
            'quick_cmd': f'./check {pid} --tier quick',
            'thorough_cmd': f'./check {pid} --tier thorough',
            'evidence_file': f'evidence/{pid}.json',
            'replay_cmd_template': f'./check {pid} --replay {{path}}',
            'engine': 'pyvc',
            'level_claimed': {'category': p['level'], 'text': p['explanation'], 'design_ref': f'DESIGN.md section 2, {pid}'},
            'level_note': '; '.join(['trusted: the pyvc VC generator and its Python semantics (DESIGN 1.3), z3/cvc5'] + p['assumptions']
                                    + (['NOT decided: ' + ' | '.join(p['not_decided'])] if p['not_decided'] else [])),
            'technique': c.get('technique', 'contract-based deductive verification: VCs generated from the real function ASTs '
                                            'against sidecar contracts, discharged by z3 (cvc5 on unknown)'),
        })
    else:
        na.append({'property_id': pid, 'reason': CLAIMED.get('_not_applicable', {}).get(
            pid, 'contracts not finished yet: not claimed until they discharge on the unchanged tree (build in progress)')})
m = {'version': 1, 'setup_cmd': './setup.sh',
     'hooks': {'guard': 'SUPVISORS_VERIF',
               'enable': 'none needed: contracts are sidecar files under /verif/contracts, /repo carries no hook',
               'baseline_off_cmd': 'cd /repo && /venv/bin/python -m pytest -ra -q -p no:cacheprovider --timeout=900 --continue-on-collection-errors',
               'source_commits': [], 'add_only': True},
     'engines': [{'name': 'pyvc', 'path': 'pyvc/', 'serves_properties': [c['property_id'] for c in checks],
                  'kind_free_text': 'own verification-condition generator: path-forking symbolic execution of the real function '
                                    'ASTs of /repo against sidecar contracts (contracts/*.py), obligations discharged by z3 '
                                    '(cvc5 on unknown), finite-universe counter-model search and replay on the real classes'}],
     'checks': checks,
     'notes': 'fix: commits in /repo (unguarded repairs of genuine defects) are listed in known_findings.json under "fixed"',
     'not_applicable': na}
json.dump(m, open(os.path.join(V, 'MANIFEST.json'), 'w'), indent=1)
import jsonschema
jsonschema.validate(m, json.load(open('/root/.vp/MANIFEST.schema.json')))
print('MANIFEST: claimed', [c['property_id'] for c in checks])
